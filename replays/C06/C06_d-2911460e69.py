#!/venv/bin/python
"""Replay of a counterexample for C06 / C06.d (check 'a variable is returned iff it is read after the selection').
Runs the obligation's scenario NATIVELY (real jedi code from /repo, no interpreter, no solver) on the
concrete inputs below.  Exit 1 while the deviation exists, exit 0 once it is gone."""
import json, os, sys
sys.path.insert(0, '/verif'); sys.path.insert(0, os.environ.get('VERIF_REPO', '/repo'))
from vf.replay import replay
sys.exit(replay('C06', 'C06.d', json.loads('{"S": 2, "T": 1}'), json.loads('{"selection_end_line": 1, "stmt0_line": 1, "stmt0_tok0": 0, "stmt0_tok0_is_definition": 1, "stmt1_line": 2, "stmt1_tok0": 0, "stmt1_tok0_is_definition": 0}'), 'a variable is returned iff it is read after the selection'))
