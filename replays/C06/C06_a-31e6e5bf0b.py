#!/venv/bin/python
"""Replay of a counterexample for C06 / C06.a (check 'parentheses are added whenever the grammar would otherwise re-associate the expression').
Runs the obligation's scenario NATIVELY (real jedi code from /repo, no interpreter, no solver) on the
concrete inputs below.  Exit 1 while the deviation exists, exit 0 once it is gone."""
import json, os, sys
sys.path.insert(0, '/verif'); sys.path.insert(0, os.environ.get('VERIF_REPO', '/repo'))
from vf.replay import replay
sys.exit(replay('C06', 'C06.a', json.loads('{"slot": "and_expr"}'), json.loads('{"rhs_type": "star_expr"}'), 'parentheses are added whenever the grammar would otherwise re-associate the expression'))
