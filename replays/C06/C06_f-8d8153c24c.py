#!/venv/bin/python
"""Replay of a counterexample for C06 / C06.f (check 'input iff at least one local/parameter definition lies outside the selected range').
Runs the obligation's scenario NATIVELY (real jedi code from /repo, no interpreter, no solver) on the
concrete inputs below.  Exit 1 while the deviation exists, exit 0 once it is gone."""
import json, os, sys
sys.path.insert(0, '/verif'); sys.path.insert(0, os.environ.get('VERIF_REPO', '/repo'))
from vf.replay import replay
sys.exit(replay('C06', 'C06.f', json.loads('{"k": 2}'), json.loads('{"first_line": 2, "last_line": 3, "def0_is_param": 0, "def0_at_module_level": 0, "def0_line": 2, "def1_is_param": 1, "def1_at_module_level": 0, "def1_line": 1}'), 'input iff at least one local/parameter definition lies outside the selected range'))
