#!/venv/bin/python
"""Replay of a counterexample for C06 / C06.g (check 'the insertion point is the outermost wrapper of the method (decorators stay with the method)').
Runs the obligation's scenario NATIVELY (real jedi code from /repo, no interpreter, no solver) on the
concrete inputs below.  Exit 1 while the deviation exists, exit 0 once it is gone."""
import json, os, sys
sys.path.insert(0, '/verif'); sys.path.insert(0, os.environ.get('VERIF_REPO', '/repo'))
from vf.replay import replay
sys.exit(replay('C06', 'C06.g', json.loads('{}'), json.loads('{"wrapper_levels": 2, "unused": 0, "wrapper0": 0, "wrapper1": 0}'), 'the insertion point is the outermost wrapper of the method (decorators stay with the method)'))
