#!/venv/bin/python
"""Replay of a counterexample for C12 / C12.c (check 'sys.path is the same object with the same content afterwards').
Runs the obligation's scenario NATIVELY (real jedi code from /repo, no interpreter, no solver) on the
concrete inputs below.  Exit 1 while the deviation exists, exit 0 once it is gone."""
import json, os, sys
sys.path.insert(0, '/verif'); sys.path.insert(0, os.environ.get('VERIF_REPO', '/repo'))
from vf.replay import replay
sys.exit(replay('C12', 'C12.c', json.loads('{"outcome": "ImportError", "given": true}'), json.loads('{"n_entries": 0}'), 'sys.path is the same object with the same content afterwards'))
