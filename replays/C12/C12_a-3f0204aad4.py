#!/venv/bin/python
"""Replay of a counterexample for C12 / C12.a (check 'safe mode: every searched entry is an entry of the environment path').
Runs the obligation's scenario NATIVELY (real jedi code from /repo, no interpreter, no solver) on the
concrete inputs below.  Exit 1 while the deviation exists, exit 0 once it is gone."""
import json, os, sys
sys.path.insert(0, '/verif'); sys.path.insert(0, os.environ.get('VERIF_REPO', '/repo'))
from vf.replay import replay
sys.exit(replay('C12', 'C12.a', json.loads('{"n": 1, "b": 1, "given": true, "explicit": false}'), json.loads('{"entry0": "", "base0": "A", "load_unsafe_extensions": false}'), 'safe mode: every searched entry is an entry of the environment path'))
