#!/venv/bin/python
"""Replay of a counterexample for C07 / C07.b (check 'new side: final newline added iff missing in the new text').
Runs the obligation's scenario NATIVELY (real jedi code from /repo, no interpreter, no solver) on the
concrete inputs below.  Exit 1 while the deviation exists, exit 0 once it is gone."""
import json, os, sys
sys.path.insert(0, '/verif'); sys.path.insert(0, os.environ.get('VERIF_REPO', '/repo'))
from vf.replay import replay
sys.exit(replay('C07', 'C07.b', json.loads('{"KO": 1, "KN": 1}'), json.loads('{"body0": "", "new_body0": "\\u000e", "file_inside_project": 0}'), 'new side: final newline added iff missing in the new text'))
