#!/venv/bin/python
"""Replay of a counterexample for C07 / C07.a (check 'to_path: moved iff the file is the renamed path or lies under it').
Runs the obligation's scenario NATIVELY (real jedi code from /repo, no interpreter, no solver) on the
concrete inputs below.  Exit 1 while the deviation exists, exit 0 once it is gone."""
import json, os, sys
sys.path.insert(0, '/verif'); sys.path.insert(0, os.environ.get('VERIF_REPO', '/repo'))
from vf.replay import replay
sys.exit(replay('C07', 'C07.a', json.loads('{"depth": 2, "kind": "below"}'), json.loads('{"d0": "\\u0001", "oldx": "\\u0001", "oldy": "", "new": "\\u0002", "below_depth": 1, "sub0": "\\u0001", "sub1": "\\u0001"}'), 'to_path: moved iff the file is the renamed path or lies under it'))
