#!/venv/bin/python
"""Replay of a counterexample for C07 / C07.b (check 'the diff is computed between exactly the original text and get_new_code()').
Runs the obligation's scenario NATIVELY (real jedi code from /repo, no interpreter, no solver) on the
concrete inputs below.  Exit 1 while the deviation exists, exit 0 once it is gone."""
import json, os, sys
sys.path.insert(0, '/verif'); sys.path.insert(0, os.environ.get('VERIF_REPO', '/repo'))
from vf.replay import replay
sys.exit(replay('C07', 'C07.b', json.loads('{"KO": 1, "KN": 1}'), json.loads('{"body0": "\\u0000", "new_body0": "", "file_inside_project": 0}'), 'the diff is computed between exactly the original text and get_new_code()'))
