#!/venv/bin/python
"""Replay of a counterexample for C07 / C07.c (check 'the complete text in front of the replaced expression (comments, line breaks) is kept').
Runs the obligation's scenario NATIVELY (real jedi code from /repo, no interpreter, no solver) on the
concrete inputs below.  Exit 1 while the deviation exists, exit 0 once it is gone."""
import json, os, sys
sys.path.insert(0, '/verif'); sys.path.insert(0, os.environ.get('VERIF_REPO', '/repo'))
from vf.replay import replay
sys.exit(replay('C07', 'C07.c', json.loads('{"same_leaf": false, "n": 2}'), json.loads('{"stmt_prefix_body0": "", "stmt_prefix_eol0": 0, "stmt_prefix_body1": "", "expr_prefix_body0": "", "expr_prefix_eol0": 1, "expr_prefix_body1": ""}'), 'the complete text in front of the replaced expression (comments, line breaks) is kept'))
