#!/venv/bin/python
"""Replay of a counterexample for C07 / C07.e (check 'exactly the last (indentation) line is dropped; all other bytes, line endings included, are kept').
Runs the obligation's scenario NATIVELY (real jedi code from /repo, no interpreter, no solver) on the
concrete inputs below.  Exit 1 while the deviation exists, exit 0 once it is gone."""
import json, os, sys
sys.path.insert(0, '/verif'); sys.path.insert(0, os.environ.get('VERIF_REPO', '/repo'))
from vf.replay import replay
sys.exit(replay('C07', 'C07.e', json.loads('{"K": 2}'), json.loads('{"prefix_body0": "", "prefix_eol0": 1, "prefix_body1": ""}'), 'exactly the last (indentation) line is dropped; all other bytes, line endings included, are kept'))
