#!/venv/bin/python
"""Replay of a counterexample for C13 / C13.d (check 'safe mode: user __getitem__ is not called, no value').
Runs the obligation's scenario NATIVELY (real jedi code from /repo, no interpreter, no solver) on the
concrete inputs below.  Exit 1 while the deviation exists, exit 0 once it is gone."""
import json, os, sys
sys.path.insert(0, '/verif'); sys.path.insert(0, os.environ.get('VERIF_REPO', '/repo'))
from vf.replay import replay
sys.exit(replay('C13', 'C13.d', json.loads('{"kind": "list_subclass"}'), json.loads('{"safe": 1, "unused": 0}'), 'safe mode: user __getitem__ is not called, no value'))
