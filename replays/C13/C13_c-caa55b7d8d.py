#!/venv/bin/python
"""Replay of a counterexample for C13 / C13.c (check 'a data descriptor wins over the instance dict and is reported as a get-descriptor (never read in safe mode)').
Runs the obligation's scenario NATIVELY (real jedi code from /repo, no interpreter, no solver) on the
concrete inputs below.  Exit 1 while the deviation exists, exit 0 once it is gone."""
import json, os, sys
sys.path.insert(0, '/verif'); sys.path.insert(0, os.environ.get('VERIF_REPO', '/repo'))
from vf.replay import replay
sys.exit(replay('C13', 'C13.c', json.loads('{}'), json.loads('{"descriptor_has___set__": 0, "descriptor_has___delete__": 0, "instance_dict_has_same_name": 0, "descriptor_class_has_a_custom_metaclass": 1, "unused": 0}'), 'a data descriptor wins over the instance dict and is reported as a get-descriptor (never read in safe mode)'))
