#!/venv/bin/python
"""Replay of a counterexample for C13 / C13.b (check 'a get-descriptor outside the whitelist is reported as a descriptor').
Runs the obligation's scenario NATIVELY (real jedi code from /repo, no interpreter, no solver) on the
concrete inputs below.  Exit 1 while the deviation exists, exit 0 once it is gone."""
import json, os, sys
sys.path.insert(0, '/verif'); sys.path.insert(0, os.environ.get('VERIF_REPO', '/repo'))
from vf.replay import replay
sys.exit(replay('C13', 'C13.b', json.loads('{"kind": "property_plain"}'), json.loads('{"safe": 1, "unused": 0}'), 'a get-descriptor outside the whitelist is reported as a descriptor'))
