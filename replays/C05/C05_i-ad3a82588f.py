#!/venv/bin/python
"""Replay of a counterexample for C05 / C05.i (check 'a defining module takes part in the search iff it lies inside the project (any depth)').
Runs the obligation's scenario NATIVELY (real jedi code from /repo, no interpreter, no solver) on the
concrete inputs below.  Exit 1 while the deviation exists, exit 0 once it is gone."""
import json, os, sys
sys.path.insert(0, '/verif'); sys.path.insert(0, os.environ.get('VERIF_REPO', '/repo'))
from vf.replay import replay
sys.exit(replay('C05', 'C05.i', json.loads('{}'), json.loads('{"module0_depth": 0, "module1_depth": 2, "unused": 0}'), 'a defining module takes part in the search iff it lies inside the project (any depth)'))
