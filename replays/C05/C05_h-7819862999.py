#!/venv/bin/python
"""Replay of a counterexample for C05 / C05.h (check 'the value token is looked up as a variable, never as the parameter').
Runs the obligation's scenario NATIVELY (real jedi code from /repo, no interpreter, no solver) on the
concrete inputs below.  Exit 1 while the deviation exists, exit 0 once it is gone."""
import json, os, sys
sys.path.insert(0, '/verif'); sys.path.insert(0, os.environ.get('VERIF_REPO', '/repo'))
from vf.replay import replay
sys.exit(replay('C05', 'C05.h', json.loads('{}'), json.loads('{"keyword_spelling": 1, "value_spelling": 1, "asked_token_is_the_value": 1, "unused": 0}'), 'the value token is looked up as a variable, never as the parameter'))
