#!/venv/bin/python
"""Replay of a counterexample for C05 / C05.b (check 'the result is the connected component of the start token').
Runs the obligation's scenario NATIVELY (real jedi code from /repo, no interpreter, no solver) on the
concrete inputs below.  Exit 1 while the deviation exists, exit 0 once it is gone."""
import json, os, sys
sys.path.insert(0, '/verif'); sys.path.insert(0, os.environ.get('VERIF_REPO', '/repo'))
from vf.replay import replay
sys.exit(replay('C05', 'C05.b', json.loads('{"orders": "source"}'), json.loads('{"u0_refers_to": 0, "u1_refers_to": 0, "u2_refers_to": 2, "start_token": 1, "unused": 0}'), 'the result is the connected component of the start token'))
