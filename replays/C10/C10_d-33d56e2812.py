#!/venv/bin/python
"""Replay of a counterexample for C10 / C10.d (check 'a search below a package never consults the interpreter-wide lookup').
Runs the obligation's scenario NATIVELY (real jedi code from /repo, no interpreter, no solver) on the
concrete inputs below.  Exit 1 while the deviation exists, exit 0 once it is gone."""
import json, os, sys
sys.path.insert(0, '/verif'); sys.path.insert(0, os.environ.get('VERIF_REPO', '/repo'))
from vf.replay import replay
sys.exit(replay('C10', 'C10.d', json.loads('{}'), json.loads('{"search_inside_a_package_path": 1, "loader_given": 0, "PathFinder_finds_it": 0, "top_level_lookup_would_find_a_module_of_that_name": 1, "unused": 0}'), 'a search below a package never consults the interpreter-wide lookup'))
