#!/venv/bin/python
"""Replay of a counterexample for C10 / C10.c (check '(None, False) when no sys.path entry is a parent directory').
Runs the obligation's scenario NATIVELY (real jedi code from /repo, no interpreter, no solver) on the
concrete inputs below.  Exit 1 while the deviation exists, exit 0 once it is gone."""
import json, os, sys
sys.path.insert(0, '/verif'); sys.path.insert(0, os.environ.get('VERIF_REPO', '/repo'))
from vf.replay import replay
sys.exit(replay('C10', 'C10.c', json.loads('{"entries": 1, "depth": 1, "maxlen": 6}'), json.loads('{"fx": "\\u0001\\u0001", "fy": "\\u0001\\u0001\\u0001\\u0001\\u0001\\u0001", "ext": 0, "entry0_kind": 2, "entry0_in": 0}'), '(None, False) when no sys.path entry is a parent directory'))
