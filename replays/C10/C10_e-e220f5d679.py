#!/venv/bin/python
"""Replay of a counterexample for C10 / C10.e (check 'a plain module has no __path__ (import a.b through a module must fail)').
Runs the obligation's scenario NATIVELY (real jedi code from /repo, no interpreter, no solver) on the
concrete inputs below.  Exit 1 while the deviation exists, exit 0 once it is gone."""
import json, os, sys
sys.path.insert(0, '/verif'); sys.path.insert(0, os.environ.get('VERIF_REPO', '/repo'))
from vf.replay import replay
sys.exit(replay('C10', 'C10.e', json.loads('{}'), json.loads('{"is_package": 0, "declares_namespace": 0, "unused": 0}'), 'a plain module has no __path__ (import a.b through a module must fail)'))
