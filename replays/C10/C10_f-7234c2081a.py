#!/venv/bin/python
"""Replay of a counterexample for C10 / C10.f (check 'with the relative level of the import statement').
Runs the obligation's scenario NATIVELY (real jedi code from /repo, no interpreter, no solver) on the
concrete inputs below.  Exit 1 while the deviation exists, exit 0 once it is gone."""
import json, os, sys
sys.path.insert(0, '/verif'); sys.path.insert(0, os.environ.get('VERIF_REPO', '/repo'))
from vf.replay import replay
sys.exit(replay('C10', 'C10.f', json.loads('{}'), json.loads('{"level": 1}'), 'with the relative level of the import statement'))
