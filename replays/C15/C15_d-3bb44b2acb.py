#!/venv/bin/python
"""Replay of a counterexample for C15 / C15.d (check 'never raises').
Runs the obligation's scenario NATIVELY (real jedi code from /repo, no interpreter, no solver) on the
concrete inputs below.  Exit 1 while the deviation exists, exit 0 once it is gone."""
import json, os, sys
sys.path.insert(0, '/verif'); sys.path.insert(0, os.environ.get('VERIF_REPO', '/repo'))
from vf.replay import replay
sys.exit(replay('C15', 'C15.d', json.loads('{"k": 2}'), json.loads('{"reenter_before_element": 0, "unused": 0}'), 'never raises'))
