#!/venv/bin/python
"""Replay of a counterexample for C15 / C15.g (check 'each import statement of the cycle is entered at most once').
Runs the obligation's scenario NATIVELY (real jedi code from /repo, no interpreter, no solver) on the
concrete inputs below.  Exit 1 while the deviation exists, exit 0 once it is gone."""
import json, os, sys
sys.path.insert(0, '/verif'); sys.path.insert(0, os.environ.get('VERIF_REPO', '/repo'))
from vf.replay import replay
sys.exit(replay('C15', 'C15.g', json.loads('{}'), json.loads('{"cycle_length": 0, "unused": 0}'), 'each import statement of the cycle is entered at most once'))
