#!/venv/bin/python
"""Replay of a counterexample for C15 / C15.c (check 'the recursion is cut by the default value (3 distinct keys exist)').
Runs the obligation's scenario NATIVELY (real jedi code from /repo, no interpreter, no solver) on the
concrete inputs below.  Exit 1 while the deviation exists, exit 0 once it is gone."""
import json, os, sys
sys.path.insert(0, '/verif'); sys.path.insert(0, os.environ.get('VERIF_REPO', '/repo'))
from vf.replay import replay
sys.exit(replay('C15', 'C15.c', json.loads('{}'), json.loads('{"reenter_on_0": 0, "reenter_on_1": 0, "reenter_on_2": 0, "unused": 0}'), 'the recursion is cut by the default value (3 distinct keys exist)'))
