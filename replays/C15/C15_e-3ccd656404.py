#!/venv/bin/python
"""Replay of a counterexample for C15 / C15.e (check 'the inference runs iff the incremented count is within the cap').
Runs the obligation's scenario NATIVELY (real jedi code from /repo, no interpreter, no solver) on the
concrete inputs below.  Exit 1 while the deviation exists, exit 0 once it is gone."""
import json, os, sys
sys.path.insert(0, '/verif'); sys.path.insert(0, os.environ.get('VERIF_REPO', '/repo'))
from vf.replay import replay
sys.exit(replay('C15', 'C15.e', json.loads('{"present": true}'), json.loads('{"count": 30001, "is_builtins_module_context": 1}'), 'the inference runs iff the incremented count is within the cap'))
