#!/venv/bin/python
"""Replay of a counterexample for C15 / C15.a2 (check 'push/pop balanced on normal and exceptional exit').
Runs the obligation's scenario NATIVELY (real jedi code from /repo, no interpreter, no solver) on the
concrete inputs below.  Exit 1 while the deviation exists, exit 0 once it is gone."""
import json, os, sys
sys.path.insert(0, '/verif'); sys.path.insert(0, os.environ.get('VERIF_REPO', '/repo'))
from vf.replay import replay
sys.exit(replay('C15', 'C15.a2', json.loads('{"n": 0, "m": 1}'), json.loads('{"counted0": 0, "count0": 0, "total": 0, "funcdef": 0, "is_builtins": true, "wrapped_raises": 0}'), 'push/pop balanced on normal and exceptional exit'))
