#!/venv/bin/python
"""Replay of a counterexample for C15 / C15.a (check 'level counts the push').
Runs the obligation's scenario NATIVELY (real jedi code from /repo, no interpreter, no solver) on the
concrete inputs below.  Exit 1 while the deviation exists, exit 0 once it is gone."""
import json, os, sys
sys.path.insert(0, '/verif'); sys.path.insert(0, os.environ.get('VERIF_REPO', '/repo'))
from vf.replay import replay
sys.exit(replay('C15', 'C15.a', json.loads('{"n": 0, "m": 0}'), json.loads('{"total": 0, "funcdef": 0, "is_builtins": true, "module_name": 0}'), 'level counts the push'))
