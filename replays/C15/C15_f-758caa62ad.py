#!/venv/bin/python
"""Replay of a counterexample for C15 / C15.f (check 'no class twice').
Runs the obligation's scenario NATIVELY (real jedi code from /repo, no interpreter, no solver) on the
concrete inputs below.  Exit 1 while the deviation exists, exit 0 once it is gone."""
import json, os, sys
sys.path.insert(0, '/verif'); sys.path.insert(0, os.environ.get('VERIF_REPO', '/repo'))
from vf.replay import replay
sys.exit(replay('C15', 'C15.f', json.loads('{"N": 3}'), json.loads('{"K0_inherits_K1": 1, "K0_inherits_K2": 1, "K1_inherits_K2": 1, "unused": 0}'), 'no class twice'))
