#!/venv/bin/python
"""Replay of a counterexample for C08 / C08.b (check 'asking again gives the same answer').
Runs the obligation's scenario NATIVELY (real jedi code from /repo, no interpreter, no solver) on the
concrete inputs below.  Exit 1 while the deviation exists, exit 0 once it is gone."""
import json, os, sys
sys.path.insert(0, '/verif'); sys.path.insert(0, os.environ.get('VERIF_REPO', '/repo'))
from vf.replay import replay
sys.exit(replay('C08', 'C08.b', json.loads('{}'), json.loads('{"unused": 0, "v1_asked_before": 0, "query_entry": 0}'), 'asking again gives the same answer'))
