#!/venv/bin/python
"""Replay of a counterexample for C08 / C08.c (check 'that component compares by identity (a re.Match), never by text: no two queries share a key').
Runs the obligation's scenario NATIVELY (real jedi code from /repo, no interpreter, no solver) on the
concrete inputs below.  Exit 1 while the deviation exists, exit 0 once it is gone."""
import json, os, sys
sys.path.insert(0, '/verif'); sys.path.insert(0, os.environ.get('VERIF_REPO', '/repo'))
from vf.replay import replay
sys.exit(replay('C08', 'C08.c', json.loads('{"K": 1}'), json.loads('{"body0": "(", "bracket_line": 0, "bracket_col": 0, "cursor_line_offset": 0, "cursor_col": 1}'), 'that component compares by identity (a re.Match), never by text: no two queries share a key'))
