#!/venv/bin/python
"""Replay of a counterexample for C08 / C08.c (check 'the key contains the match object of the text up to the bracket').
Runs the obligation's scenario NATIVELY (real jedi code from /repo, no interpreter, no solver) on the
concrete inputs below.  Exit 1 while the deviation exists, exit 0 once it is gone."""
import json, os, sys
sys.path.insert(0, '/verif'); sys.path.insert(0, os.environ.get('VERIF_REPO', '/repo'))
from vf.replay import replay
sys.exit(replay('C08', 'C08.c', json.loads('{"K": 2}'), json.loads('{"body0": "(", "eol0": 0, "body1": "", "bracket_line": 0, "bracket_col": 0, "cursor_line_offset": 1, "cursor_col": 0}'), 'the key contains the match object of the text up to the bracket'))
