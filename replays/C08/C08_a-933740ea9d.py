#!/venv/bin/python
"""Replay of a counterexample for C08 / C08.a (check 'never raises').
Runs the obligation's scenario NATIVELY (real jedi code from /repo, no interpreter, no solver) on the
concrete inputs below.  Exit 1 while the deviation exists, exit 0 once it is gone."""
import json, os, sys
sys.path.insert(0, '/verif'); sys.path.insert(0, os.environ.get('VERIF_REPO', '/repo'))
from vf.replay import replay
sys.exit(replay('C08', 'C08.a', json.loads('{"n": 1}'), json.loads('{"v1_x0_is_def": 0, "v1_y0_is_def": 0, "v2_x0_is_def": 0, "v2_y0_is_def": 0, "v1_x_cached": 0, "v1_y_cached": 0, "query_entry": 0, "query_key": 1}'), 'never raises'))
