#!/venv/bin/python
"""Replay of a counterexample for C04 / C04.b (check 'prefix length == length of the typed fragment').
Runs the obligation's scenario NATIVELY (real jedi code from /repo, no interpreter, no solver) on the
concrete inputs below.  Exit 1 while the deviation exists, exit 0 once it is gone."""
import json, os, sys
sys.path.insert(0, '/verif'); sys.path.insert(0, os.environ.get('VERIF_REPO', '/repo'))
from vf.replay import replay
sys.exit(replay('C04', 'C04.b', json.loads('{"m": 1, "L": 2, "N": 3, "fuzzy": false, "ci": true}'), json.loads('{"like": "\\u0130\\u0130", "name0": "\\u0130\\u0130A"}'), 'prefix length == length of the typed fragment'))
