#!/venv/bin/python
"""Replay of a counterexample for C04 / C04.e (check 'fragment == the token text up to the cursor').
Runs the obligation's scenario NATIVELY (real jedi code from /repo, no interpreter, no solver) on the
concrete inputs below.  Exit 1 while the deviation exists, exit 0 once it is gone."""
import json, os, sys
sys.path.insert(0, '/verif'); sys.path.insert(0, os.environ.get('VERIF_REPO', '/repo'))
from vf.replay import replay
sys.exit(replay('C04', 'C04.e', json.loads('{}'), json.loads('{"line": 2, "column": 9}'), 'fragment == the token text up to the cursor'))
