#!/venv/bin/python
"""Replay of a counterexample for C04 / C04.b (check 'every matching candidate is offered').
Runs the obligation's scenario NATIVELY (real jedi code from /repo, no interpreter, no solver) on the
concrete inputs below.  Exit 1 while the deviation exists, exit 0 once it is gone."""
import json, os, sys
sys.path.insert(0, '/verif'); sys.path.insert(0, os.environ.get('VERIF_REPO', '/repo'))
from vf.replay import replay
sys.exit(replay('C04', 'C04.b', json.loads('{"m": 2, "L": 1, "N": 2, "fuzzy": true, "ci": true}'), json.loads('{"like": "A", "name0": "\\u0130A", "name1": "\\u0130a"}'), 'every matching candidate is offered'))
