#!/venv/bin/python
"""Replay of a counterexample for C17 / C17.d (check 'is_definition() <=> the token binds a name (ast)').
Runs the obligation's scenario NATIVELY (real jedi code from /repo, no interpreter, no solver) on the
concrete inputs below.  Exit 1 while the deviation exists, exit 0 once it is gone."""
import json, os, sys
sys.path.insert(0, '/verif'); sys.path.insert(0, os.environ.get('VERIF_REPO', '/repo'))
from vf.replay import replay
sys.exit(replay('C17', 'C17.d', json.loads('{}'), json.loads('{"line": 23, "column": 14}'), 'is_definition() <=> the token binds a name (ast)'))
