#!/venv/bin/python
"""Replay of a counterexample for C17 / C17.b (check 'the window of lines around the definition, in order').
Runs the obligation's scenario NATIVELY (real jedi code from /repo, no interpreter, no solver) on the
concrete inputs below.  Exit 1 while the deviation exists, exit 0 once it is gone."""
import json, os, sys
sys.path.insert(0, '/verif'); sys.path.insert(0, os.environ.get('VERIF_REPO', '/repo'))
from vf.replay import replay
sys.exit(replay('C17', 'C17.b', json.loads('{"K": 1}'), json.loads('{"body0": "\\u0000", "line": 1, "before": 1, "after": 0, "col": 0}'), 'the window of lines around the definition, in order'))
