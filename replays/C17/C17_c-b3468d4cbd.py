#!/venv/bin/python
"""Replay of a counterexample for C17 / C17.c (check 'both flags: every token exactly once').
Runs the obligation's scenario NATIVELY (real jedi code from /repo, no interpreter, no solver) on the
concrete inputs below.  Exit 1 while the deviation exists, exit 0 once it is gone."""
import json, os, sys
sys.path.insert(0, '/verif'); sys.path.insert(0, os.environ.get('VERIF_REPO', '/repo'))
from vf.replay import replay
sys.exit(replay('C17', 'C17.c', json.loads('{"T": 2}'), json.loads('{"tok0_is_definition": 0, "tok1_is_definition": 0, "unused": 0}'), 'both flags: every token exactly once'))
