#!/venv/bin/python
"""Replay of a counterexample for C17 / C17.f (check 'the definition range encloses the name').
Runs the obligation's scenario NATIVELY (real jedi code from /repo, no interpreter, no solver) on the
concrete inputs below.  Exit 1 while the deviation exists, exit 0 once it is gone."""
import json, os, sys
sys.path.insert(0, '/verif'); sys.path.insert(0, os.environ.get('VERIF_REPO', '/repo'))
from vf.replay import replay
sys.exit(replay('C17', 'C17.f', json.loads('{}'), json.loads('{"name_type": 1, "definition_ends_in_newline_leaf": 0, "line": 1, "name_start_column": 0, "name_length": 1, "definition_start_column": 0}'), 'the definition range encloses the name'))
