#!/venv/bin/python
"""Replay of a counterexample for C03 / C03.c (check 'the lookup parent skips EVERY enclosing class body (Python never consults them)').
Runs the obligation's scenario NATIVELY (real jedi code from /repo, no interpreter, no solver) on the
concrete inputs below.  Exit 1 while the deviation exists, exit 0 once it is gone."""
import json, os, sys
sys.path.insert(0, '/verif'); sys.path.insert(0, os.environ.get('VERIF_REPO', '/repo'))
from vf.replay import replay
sys.exit(replay('C03', 'C03.c', json.loads('{"depth": 2}'), json.loads('{"level0_kind": 0, "level1_kind": 0, "unused": 0}'), 'the lookup parent skips EVERY enclosing class body (Python never consults them)'))
