#!/venv/bin/python
"""Replay of a counterexample for C03 / C03.b (check 'in the scopes around that function all bindings count (they happen before the call)').
Runs the obligation's scenario NATIVELY (real jedi code from /repo, no interpreter, no solver) on the
concrete inputs below.  Exit 1 while the deviation exists, exit 0 once it is gone."""
import json, os, sys
sys.path.insert(0, '/verif'); sys.path.insert(0, os.environ.get('VERIF_REPO', '/repo'))
from vf.replay import replay
sys.exit(replay('C03', 'C03.b', json.loads('{"depth": 1}'), json.loads('{"line": 1, "column": 0, "scope0": 1}'), 'in the scopes around that function all bindings count (they happen before the call)'))
