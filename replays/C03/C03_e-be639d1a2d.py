#!/venv/bin/python
"""Replay of a counterexample for C03 / C03.e (check 'the token belongs to the scope Python assigns it to').
Runs the obligation's scenario NATIVELY (real jedi code from /repo, no interpreter, no solver) on the
concrete inputs below.  Exit 1 while the deviation exists, exit 0 once it is gone."""
import json, os, sys
sys.path.insert(0, '/verif'); sys.path.insert(0, os.environ.get('VERIF_REPO', '/repo'))
from vf.replay import replay
sys.exit(replay('C03', 'C03.e', json.loads('{}'), json.loads('{"line": 5, "column": 18}'), 'the token belongs to the scope Python assigns it to'))
