#!/venv/bin/python
"""Replay of a counterexample for C19 / C19.b (check 'one step listing every sub-folder and file').
Runs the obligation's scenario NATIVELY (real jedi code from /repo, no interpreter, no solver) on the
concrete inputs below.  Exit 1 while the deviation exists, exit 0 once it is gone."""
import json, os, sys
sys.path.insert(0, '/verif'); sys.path.insert(0, os.environ.get('VERIF_REPO', '/repo'))
from vf.replay import replay
sys.exit(replay('C19', 'C19.b', json.loads('{"n": 0}'), json.loads('{"unused": 0}'), 'one step listing every sub-folder and file'))
