#!/venv/bin/python
"""Replay of a counterexample for C19 / C19.f (check 'every python file found by the walk is scanned for identifiers, once, in order').
Runs the obligation's scenario NATIVELY (real jedi code from /repo, no interpreter, no solver) on the
concrete inputs below.  Exit 1 while the deviation exists, exit 0 once it is gone."""
import json, os, sys
sys.path.insert(0, '/verif'); sys.path.insert(0, os.environ.get('VERIF_REPO', '/repo'))
from vf.replay import replay
sys.exit(replay('C19', 'C19.f', json.loads('{"F": 1}'), json.loads('{"search_name": "\\u0001", "file0": "\\u0001", "ext0": 1}'), 'every python file found by the walk is scanned for identifiers, once, in order'))
