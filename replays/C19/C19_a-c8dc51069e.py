#!/venv/bin/python
"""Replay of a counterexample for C19 / C19.a (check 'folder deep is walked iff no ignore rule names it').
Runs the obligation's scenario NATIVELY (real jedi code from /repo, no interpreter, no solver) on the
concrete inputs below.  Exit 1 while the deviation exists, exit 0 once it is gone."""
import json, os, sys
sys.path.insert(0, '/verif'); sys.path.insert(0, os.environ.get('VERIF_REPO', '/repo'))
from vf.replay import replay
sys.exit(replay('C19', 'C19.a', json.loads('{"kind": "relative", "d2": "extends_d1"}'), json.loads('{"d1": "\\u0001", "d2_tail": "\\u0001\\u0001\\u0001\\u0001\\u0001\\u0001\\u0001\\u0001\\u0001\\u0001", "sub1": "\\u0001.py", "sub2": "\\u0001.py", "deep": "\\u0001", "mod1": "\\u0001", "mod2": "\\u0001", "entry": "\\u0001.py"}'), 'folder deep is walked iff no ignore rule names it'))
