#!/venv/bin/python
"""Replay of a counterexample for C18 / C18.d (check 'parent() is the lexically enclosing definition').
Runs the obligation's scenario NATIVELY (real jedi code from /repo, no interpreter, no solver) on the
concrete inputs below.  Exit 1 while the deviation exists, exit 0 once it is gone."""
import json, os, sys
sys.path.insert(0, '/verif'); sys.path.insert(0, os.environ.get('VERIF_REPO', '/repo'))
from vf.replay import replay
sys.exit(replay('C18', 'C18.d', json.loads('{}'), json.loads('{"line": 8, "column": 15}'), 'parent() is the lexically enclosing definition'))
