#!/venv/bin/python
"""Replay of a counterexample for C18 / C18.b (check 'module alias applied to the first component only').
Runs the obligation's scenario NATIVELY (real jedi code from /repo, no interpreter, no solver) on the
concrete inputs below.  Exit 1 while the deviation exists, exit 0 once it is gone."""
import json, os, sys
sys.path.insert(0, '/verif'); sys.path.insert(0, os.environ.get('VERIF_REPO', '/repo'))
from vf.replay import replay
sys.exit(replay('C18', 'C18.b', json.loads('{"n": 2}'), json.loads('{"part0": "posixpath", "part1": "riscospath"}'), 'module alias applied to the first component only'))
