#!/venv/bin/python
"""Replay of a counterexample for C20 / C20.a (check 'exactly the constructor settings are serialised').
Runs the obligation's scenario NATIVELY (real jedi code from /repo, no interpreter, no solver) on the
concrete inputs below.  Exit 1 while the deviation exists, exit 0 once it is gone."""
import json, os, sys
sys.path.insert(0, '/verif'); sys.path.insert(0, os.environ.get('VERIF_REPO', '/repo'))
from vf.replay import replay
sys.exit(replay('C20', 'C20.a', json.loads('{"env": "none", "n_sys": null, "n_added": 1}'), json.loads('{"added0": "/abs", "added0_is_path": 1, "smart_sys_path": false, "load_unsafe_extensions": false}'), 'exactly the constructor settings are serialised'))
