#!/venv/bin/python
"""Replay of a counterexample for C20 / C20.b (check 'the (memoised) environment path, which is also the safe-import whitelist, is not modified').
Runs the obligation's scenario NATIVELY (real jedi code from /repo, no interpreter, no solver) on the
concrete inputs below.  Exit 1 while the deviation exists, exit 0 once it is gone."""
import json, os, sys
sys.path.insert(0, '/verif'); sys.path.insert(0, os.environ.get('VERIF_REPO', '/repo'))
from vf.replay import replay
sys.exit(replay('C20', 'C20.b', json.loads('{"where": "inside", "depth": 0, "explicit": false, "n": 2, "n_added": 1}'), json.loads('{"smart_sys_path": 0, "env0": "A", "env1": "A", "added0": "A"}'), 'the (memoised) environment path, which is also the safe-import whitelist, is not modified'))
