#!/venv/bin/python
"""Replay of a counterexample for C11 / C11.f (check 'directly behind "name=" the argument being typed is the keyword argument name').
Runs the obligation's scenario NATIVELY (real jedi code from /repo, no interpreter, no solver) on the
concrete inputs below.  Exit 1 while the deviation exists, exit 0 once it is gone."""
import json, os, sys
sys.path.insert(0, '/verif'); sys.path.insert(0, os.environ.get('VERIF_REPO', '/repo'))
from vf.replay import replay
sys.exit(replay('C11', 'C11.f', json.loads('{"snippet": 0}'), json.loads('{"line": 1, "column": 48}'), 'directly behind "name=" the argument being typed is the keyword argument name'))
