#!/venv/bin/python
"""Replay of a counterexample for C11 / C11.b (check 'the rendered list is a valid Python parameter list').
Runs the obligation's scenario NATIVELY (real jedi code from /repo, no interpreter, no solver) on the
concrete inputs below.  Exit 1 while the deviation exists, exit 0 once it is gone."""
import json, os, sys
sys.path.insert(0, '/verif'); sys.path.insert(0, os.environ.get('VERIF_REPO', '/repo'))
from vf.replay import replay
sys.exit(replay('C11', 'C11.b', json.loads('{"P": 3}'), json.loads('{"kind0": 0, "kind1": 2, "kind2": 3}'), 'the rendered list is a valid Python parameter list'))
