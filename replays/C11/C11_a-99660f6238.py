#!/venv/bin/python
"""Replay of a counterexample for C11 / C11.a (check 'index is admissible under Python binding rules').
Runs the obligation's scenario NATIVELY (real jedi code from /repo, no interpreter, no solver) on the
concrete inputs below.  Exit 1 while the deviation exists, exit 0 once it is gone."""
import json, os, sys
sys.path.insert(0, '/verif'); sys.path.insert(0, os.environ.get('VERIF_REPO', '/repo'))
from vf.replay import replay
sys.exit(replay('C11', 'C11.a', json.loads('{"P": 1, "A": 1, "stars": false}'), json.loads('{"kinds": 3, "p0": "bb", "shape0": 2, "a0": "b"}'), 'index is admissible under Python binding rules'))
