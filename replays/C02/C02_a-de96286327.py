#!/venv/bin/python
"""Replay of a counterexample for C02 / C02.a (check '**kwargs receives exactly the keyword arguments naming no parameter').
Runs the obligation's scenario NATIVELY (real jedi code from /repo, no interpreter, no solver) on the
concrete inputs below.  Exit 1 while the deviation exists, exit 0 once it is gone."""
import json, os, sys
sys.path.insert(0, '/verif'); sys.path.insert(0, os.environ.get('VERIF_REPO', '/repo'))
from vf.replay import replay
sys.exit(replay('C02', 'C02.a', json.loads('{"P": 1, "A": 1}'), json.loads('{"parameter_list": 3, "n_arguments": 1, "key0": 1, "unused": 0}'), '**kwargs receives exactly the keyword arguments naming no parameter'))
