#!/venv/bin/python
"""Replay of a counterexample for C02 / C02.b (check 'target after the star: element L-(n-j), counted from the end').
Runs the obligation's scenario NATIVELY (real jedi code from /repo, no interpreter, no solver) on the
concrete inputs below.  Exit 1 while the deviation exists, exit 0 once it is gone."""
import json, os, sys
sys.path.insert(0, '/verif'); sys.path.insert(0, os.environ.get('VERIF_REPO', '/repo'))
from vf.replay import replay
sys.exit(replay('C02', 'C02.b', json.loads('{"n": 3, "star": 0, "nested": null}'), json.loads('{"trailing_comma": 1, "asked_name": 1, "rhs_length": 2}'), 'target after the star: element L-(n-j), counted from the end'))
