#!/venv/bin/python
"""Replay of a counterexample for C02 / C02.c (check 'names of a base class are bound on behalf of the class the lookup started from').
Runs the obligation's scenario NATIVELY (real jedi code from /repo, no interpreter, no solver) on the
concrete inputs below.  Exit 1 while the deviation exists, exit 0 once it is gone."""
import json, os, sys
sys.path.insert(0, '/verif'); sys.path.insert(0, os.environ.get('VERIF_REPO', '/repo'))
from vf.replay import replay
sys.exit(replay('C02', 'C02.c', json.loads('{"n": 2}'), json.loads('{"K1_is_compiled": 0, "unused": 0}'), 'names of a base class are bound on behalf of the class the lookup started from'))
