#!/venv/bin/python
"""Replay of a counterexample for C02 / C02.a (check 'parameter 1 receives the argument Python binds to it').
Runs the obligation's scenario NATIVELY (real jedi code from /repo, no interpreter, no solver) on the
concrete inputs below.  Exit 1 while the deviation exists, exit 0 once it is gone."""
import json, os, sys
sys.path.insert(0, '/verif'); sys.path.insert(0, os.environ.get('VERIF_REPO', '/repo'))
from vf.replay import replay
sys.exit(replay('C02', 'C02.a', json.loads('{"P": 2, "A": 2}'), json.loads('{"parameter_list": 8, "n_arguments": 2, "key0": 0, "key1": 2, "unused": 0}'), 'parameter 1 receives the argument Python binds to it'))
