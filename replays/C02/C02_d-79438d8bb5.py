#!/venv/bin/python
"""Replay of a counterexample for C02 / C02.d (check 'the decorator nearest to the def is applied first, the topmost last').
Runs the obligation's scenario NATIVELY (real jedi code from /repo, no interpreter, no solver) on the
concrete inputs below.  Exit 1 while the deviation exists, exit 0 once it is gone."""
import json, os, sys
sys.path.insert(0, '/verif'); sys.path.insert(0, os.environ.get('VERIF_REPO', '/repo'))
from vf.replay import replay
sys.exit(replay('C02', 'C02.d', json.loads('{"n": 2}'), json.loads('{"unused": 0}'), 'the decorator nearest to the def is applied first, the topmost last'))
