#!/venv/bin/python
"""Replay of a counterexample for C16 / C16.c (check 'flow analysis is on again afterwards, also after an exception').
Runs the obligation's scenario NATIVELY (real jedi code from /repo, no interpreter, no solver) on the
concrete inputs below.  Exit 1 while the deviation exists, exit 0 once it is gone."""
import json, os, sys
sys.path.insert(0, '/verif'); sys.path.insert(0, os.environ.get('VERIF_REPO', '/repo'))
from vf.replay import replay
sys.exit(replay('C16', 'C16.c', json.loads('{"which": "flow_analysis"}'), json.loads('{"inner_raises": 1, "unused": 0}'), 'flow analysis is on again afterwards, also after an exception'))
