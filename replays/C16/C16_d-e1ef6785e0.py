#!/venv/bin/python
"""Replay of a counterexample for C16 / C16.d (check 'after the reset every execution budget is back at zero').
Runs the obligation's scenario NATIVELY (real jedi code from /repo, no interpreter, no solver) on the
concrete inputs below.  Exit 1 while the deviation exists, exit 0 once it is gone."""
import json, os, sys
sys.path.insert(0, '/verif'); sys.path.insert(0, os.environ.get('VERIF_REPO', '/repo'))
from vf.replay import replay
sys.exit(replay('C16', 'C16.d', json.loads('{}'), json.loads('{"level": 0, "total": 0, "stack": 0, "count_f": 0, "pushed": 1}'), 'after the reset every execution budget is back at zero'))
