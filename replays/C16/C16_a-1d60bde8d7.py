#!/venv/bin/python
"""Replay of a counterexample for C16 / C16.a (check 'unequal results are ordered the same whatever the input order').
Runs the obligation's scenario NATIVELY (real jedi code from /repo, no interpreter, no solver) on the
concrete inputs below.  Exit 1 while the deviation exists, exit 0 once it is gone."""
import json, os, sys
sys.path.insert(0, '/verif'); sys.path.insert(0, os.environ.get('VERIF_REPO', '/repo'))
from vf.replay import replay
sys.exit(replay('C16', 'C16.a', json.loads('{}'), json.loads('{"a_has_pos": 1, "a_line": 1, "a_col": 0, "a_name": "", "a_has_path": 0, "b_has_pos": 1, "b_line": 1, "b_col": 1, "b_name": "", "b_has_path": 0}'), 'unequal results are ordered the same whatever the input order'))
