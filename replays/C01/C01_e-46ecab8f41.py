#!/venv/bin/python
"""Replay of a counterexample for C01 / C01.e (check '_complete_python never raises').
Runs the obligation's scenario NATIVELY (real jedi code from /repo, no interpreter, no solver) on the
concrete inputs below.  Exit 1 while the deviation exists, exit 0 once it is gone."""
import json, os, sys
sys.path.insert(0, '/verif'); sys.path.insert(0, os.environ.get('VERIF_REPO', '/repo'))
from vf.replay import replay
sys.exit(replay('C01', 'C01.e', json.loads('{"snippet": 1}'), json.loads('{"line": 1, "column": 18}'), '_complete_python never raises'))
