#!/venv/bin/python
"""Replay of a counterexample for C01 / C01.a (check 'the query receives the normalised position').
Runs the obligation's scenario NATIVELY (real jedi code from /repo, no interpreter, no solver) on the
concrete inputs below.  Exit 1 while the deviation exists, exit 0 once it is gone."""
import json, os, sys
sys.path.insert(0, '/verif'); sys.path.insert(0, os.environ.get('VERIF_REPO', '/repo'))
from vf.replay import replay
sys.exit(replay('C01', 'C01.a', json.loads('{"K": 2, "maxlen": 64}'), json.loads('{"body0": "", "eol0": 1, "body1": "", "line_is_none": 0, "line": 1, "column_is_none": 1}'), 'the query receives the normalised position'))
