#!/venv/bin/python
"""Replay of a counterexample for C14 / C14.a (check 'helper death sets the crash flag').
Runs the obligation's scenario NATIVELY (real jedi code from /repo, no interpreter, no solver) on the
concrete inputs below.  Exit 1 while the deviation exists, exit 0 once it is gone."""
import json, os, sys
sys.path.insert(0, '/verif'); sys.path.insert(0, os.environ.get('VERIF_REPO', '/repo'))
from vf.replay import replay
sys.exit(replay('C14', 'C14.a', json.loads('{"crashed": false}'), json.loads('{"write_outcome": 0, "read_outcome": 3, "stderr_read_raises": 0}'), 'helper death sets the crash flag'))
