#!/venv/bin/python
"""Replay of a counterexample for C14 / C14.d (check 'every pipe is closed, whatever happened to the others').
Runs the obligation's scenario NATIVELY (real jedi code from /repo, no interpreter, no solver) on the
concrete inputs below.  Exit 1 while the deviation exists, exit 0 once it is gone."""
import json, os, sys
sys.path.insert(0, '/verif'); sys.path.insert(0, os.environ.get('VERIF_REPO', '/repo'))
from vf.replay import replay
sys.exit(replay('C14', 'C14.d', json.loads('{}'), json.loads('{"kill_raises": 0, "wait_raises": 0, "close_stdin_raises": 0, "close_stdout_raises": 1, "close_stderr_raises": 0, "unused": 0}'), 'every pipe is closed, whatever happened to the others'))
