#!/venv/bin/python
"""Replay of a counterexample for C14 / C14.e (check "reporting the helper's stderr never raises").
Runs the obligation's scenario NATIVELY (real jedi code from /repo, no interpreter, no solver) on the
concrete inputs below.  Exit 1 while the deviation exists, exit 0 once it is gone."""
import json, os, sys
sys.path.insert(0, '/verif'); sys.path.insert(0, os.environ.get('VERIF_REPO', '/repo'))
from vf.replay import replay
sys.exit(replay('C14', 'C14.e', json.loads('{"n": 1}'), json.loads('{"line0": 3, "unused": 0}'), "reporting the helper's stderr never raises"))
