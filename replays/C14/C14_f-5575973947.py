#!/venv/bin/python
"""Replay of a counterexample for C14 / C14.f (check 'the handle counts as used as soon as a request went out, whatever its outcome').
Runs the obligation's scenario NATIVELY (real jedi code from /repo, no interpreter, no solver) on the
concrete inputs below.  Exit 1 while the deviation exists, exit 0 once it is gone."""
import json, os, sys
sys.path.insert(0, '/verif'); sys.path.insert(0, os.environ.get('VERIF_REPO', '/repo'))
from vf.replay import replay
sys.exit(replay('C14', 'C14.f', json.loads('{}'), json.loads('{"request_raises_in_helper": 1, "my_id": 0}'), 'the handle counts as used as soon as a request went out, whatever its outcome'))
