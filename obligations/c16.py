"""C16 - Results are deterministic and repeatable (API-level ordering and restored switches)."""
from vf.ob import Obligation, Obj

from jedi import common
from jedi.api import helpers, classes
from jedi.inference import references as jrefs
from jedi.inference.context import AbstractContext


class TreeNameStub:
    _pysym_holder = True

    def __init__(self, start_pos, name):
        self.start_pos = start_pos
        self.string_name = name
        self.tree_name = None

    def get_public_name(self):
        return self.string_name


def make_name(ctx, tag, state):
    """a classes.Name with symbolic start position, module path and spelling"""
    has_pos = ctx.flag(tag + '_has_pos')
    pos = None
    if has_pos:
        pos = (ctx.int(tag + '_line', 1), ctx.int(tag + '_col', 0))
    spelling = ctx.str(tag + '_name', maxlen=3)
    has_path = ctx.flag(tag + '_has_path')
    path = None
    if has_path:
        path = ctx.path([ctx.component(tag + '_dir', 3), ctx.component(tag + '_file', 3)])
    n = classes.Name.__new__(classes.Name)
    n._pysym_holder = True
    n._inference_state = state
    n._name = TreeNameStub(pos, spelling)
    n.is_keyword = False
    mod = Obj(is_stub=lambda: False, is_compiled=lambda: False, py__file__=lambda: path)
    n._get_module_context = lambda: mod
    return n


class C16a(Obligation):
    id = 'C16.a'
    title = 'definitions: distinct results have distinct sort keys, so sorted(set(..)) is a function of the set'
    pattern = 'P1 (sort key of sorted_definitions vs Name.__eq__)'
    assumptions = (
        'a start position is None or (line>=1, column>=0); module path is None or a normalised absolute path; '
        'both names belong to the same Script (same inference state)',
    )

    def scenario(self, ctx, cfg):
        state = Obj()
        a, b = make_name(ctx, 'a', state), make_name(ctx, 'b', state)
        out = ctx.call(helpers.sorted_definitions, [a, b])
        ctx.check(out.exc is None, 'sorting never raises (no None reaches a comparison)')
        out2 = ctx.call(helpers.sorted_definitions, [b, a])
        ctx.check(out2.exc is None, 'sorting never raises in the other input order')
        if out.exc is not None or out2.exc is not None:
            return
        equal = ctx.run(classes.Name.__eq__, a, b)
        same_order = out.value[0] is out2.value[0]
        ctx.check(ctx.Or(equal, same_order), 'unequal results are ordered the same whatever the input order')


class C16c(Obligation):
    id = 'C16.c'
    title = 'temporary switches are restored on every exit (flow analysis, predefined names, monkeypatch)'
    pattern = 'P3 (inner call returns or raises)'
    assumptions = ('the inner computation is a stub that returns or raises',)

    def configs(self, tier):
        return [dict(which=w) for w in ('flow_analysis', 'predefine_names', 'monkeypatch')]

    def scenario(self, ctx, cfg):
        raises = ctx.flag('inner_raises')
        ctx.int('unused')
        if cfg['which'] == 'flow_analysis':
            inf = Obj(flow_analysis_enabled=True, project=Obj(path=None))
            seen = []

            def defining(module_context, tree_name):
                seen.append(inf.flow_analysis_enabled)
                if raises:
                    raise RecursionError('deep')
                return []
            ctx.patch(jrefs, '_find_defining_names', defining)
            ctx.force(jrefs.find_references)
            module_context = Obj(inference_state=inf, tree_node=Obj(get_used_names=lambda: {}))
            out = ctx.call(jrefs.find_references, module_context, Obj(value='x'), True)
            ctx.check(seen == [False], 'flow analysis is off while the defining names are searched')
            ctx.check(inf.flow_analysis_enabled is True, 'flow analysis is on again afterwards, also after an exception')
            ctx.check(out.raised(RecursionError) if raises else out.exc is None, 'outcome of the inner search is passed on')
        elif cfg['which'] == 'predefine_names':
            c = AbstractContext.__new__(AbstractContext)
            c.predefined_names = {'other': 1}
            ctx.force(AbstractContext.predefine_names.__wrapped__)

            def body():
                with c.predefine_names('scope', {'n': 1}):
                    inside = dict(c.predefined_names)
                    if raises:
                        raise KeyError('boom')
                return inside
            out = ctx.call(body)
            ctx.check(c.predefined_names == {'other': 1}, 'the predefined-names mapping is restored on every exit')
            if not raises:
                ctx.check(out.exc is None and out.value == {'other': 1, 'scope': {'n': 1}}, 'visible inside the block')
        else:
            target = Obj(attr='old')
            ctx.force(common.monkeypatch.__wrapped__)

            def body():
                with common.monkeypatch(target, 'attr', 'new'):
                    inside = target.attr
                    if raises:
                        raise KeyError('boom')
                return inside
            out = ctx.call(body)
            ctx.check(target.attr == 'old', 'the patched attribute is restored on every exit')
            if not raises:
                ctx.check(out.exc is None and out.value == 'new', 'patched inside the block')


from jedi.inference import InferenceState  # noqa: E402
from jedi.inference import recursion as jrecursion  # noqa: E402


class C16d(Obligation):
    id = 'C16.d'
    title = 'the per-query reset leaves no budget spent by earlier queries (all counters, stacks and per-function counts)'
    pattern = 'P2 (arbitrary used detector state, then the real reset)'
    assumptions = ('the detectors carry arbitrary symbolic counters before the reset; function identities are abstract',)

    def scenario(self, ctx, cfg):
        state = InferenceState.__new__(InferenceState)
        state._pysym_holder = True
        used = jrecursion.ExecutionRecursionDetector(state)
        used._recursion_level = ctx.int('level', 0)
        used._execution_count = ctx.int('total', 0)
        used._parent_execution_funcs = ['f'] * ctx.choice('stack', 3)
        used._funcdef_execution_counts = {'f': ctx.int('count_f', 0, jrecursion.per_function_execution_limit)}
        state.execution_recursion_detector = used
        state.recursion_detector = jrecursion.RecursionDetector()
        state.recursion_detector.pushed_nodes = ['n'] * ctx.choice('pushed', 3)
        ctx.force(InferenceState.reset_recursion_limitations)
        out = ctx.call(state.reset_recursion_limitations)
        ctx.check(out.exc is None, 'never raises')
        d = state.execution_recursion_detector
        ctx.check(d._recursion_level == 0 and d._execution_count == 0 and len(d._parent_execution_funcs) == 0
                  and len(d._funcdef_execution_counts) == 0,
                  'after the reset every execution budget is back at zero')
        ctx.check(len(state.recursion_detector.pushed_nodes) == 0, 'and no statement is marked as being inferred')


import itertools  # noqa: E402

from jedi import settings  # noqa: E402
from jedi.api import completion as jcompletion  # noqa: E402
from obligations.c04 import NameStub  # noqa: E402


def arbitrary_order_set(ctx, counter):
    """Environment model of set()/frozenset(): membership as Python defines it, ITERATION ORDER ARBITRARY - it depends on
    the string-hash seed resp. on object addresses, which is what the property quantifies over.  The order is a
    symbolic permutation (one solver-chosen integer per set)."""
    class ArbitraryOrderSet:
        def __init__(self, iterable=()):
            self._items = []
            for x in iterable:
                self.add(x)

        def add(self, x):
            if x not in self:
                self._items.append(x)

        def update(self, *others):
            for o in others:
                for x in o:
                    self.add(x)

        def discard(self, x):
            self._items = [y for y in self._items if not (x is y or x == y)]

        def __iter__(self):
            items = list(self._items)
            perms = list(itertools.permutations(range(len(items))))
            if len(perms) > 24:
                raise AssertionError('model bound: sets of <=4 elements')
            if counter[-1] == 'insertion-order':
                return iter(items)          # reference run: every set iterates in insertion order
            counter[0] += 1
            k = ctx.choice('set_iteration%d_order_of_%d' % (counter[0], len(items)), len(perms)) if len(perms) > 1 else 0
            return iter([items[i] for i in perms[k]])

        def __len__(self):
            return len(self._items)

        def __contains__(self, x):
            return any(x is y or x == y for y in self._items)

        def __or__(self, other):
            r = ArbitraryOrderSet(self._items)
            r.update(other)
            return r
    return ArbitraryOrderSet


class C16e(Obligation):
    id = 'C16.e'
    title = 'API-level ordering is independent of set iteration order (hash seed / object addresses): completions and definitions'
    pattern = 'P3 (set()/frozenset() replaced by an environment model whose iteration order is a symbolic permutation)'
    sym_containers = True
    assumptions = (
        'every set()/frozenset() built inside jedi.api.completion and jedi.api.helpers iterates in an arbitrary (symbolic) '
        'order; 2..3 candidates with symbolic names over {a,A,b,_} (names may tie on the sort key), symbolic fragment; the '
        'completion sources are stubs as in C04.c; for definitions: 2 names with symbolic positions/paths/spellings in a set',
        'reference: the same call with every set iterating in insertion order',
    )
    z3_timeout = 8.0

    def configs(self, tier):
        c = [dict(kind='complete', m=2, N=2), dict(kind='definitions')]
        if tier != 'quick':
            c.append(dict(kind='complete', m=3, N=2))
        return c

    def _install(self, ctx, counter):
        cls = arbitrary_order_set(ctx, counter)
        for mod in (jcompletion, helpers):
            ctx.patch(mod, 'set', cls)
            ctx.patch(mod, 'frozenset', cls)
        return cls

    def scenario(self, ctx, cfg):
        counter = [0]
        aset = self._install(ctx, counter)
        if cfg['kind'] == 'definitions':
            state = Obj()
            a, b = make_name(ctx, 'a', state), make_name(ctx, 'b', state)
            equal = ctx.run(classes.Name.__eq__, a, b)
            if equal:
                return
            # what Script.infer/goto/get_references do: sorted_definitions(set(defs))
            out = ctx.call(lambda: helpers.sorted_definitions(aset([a, b])))
            ref = ctx.call(helpers.sorted_definitions, [a, b])
            ctx.check(out.exc is None and ref.exc is None, 'never raises')
            if out.exc is None and ref.exc is None:
                ctx.check(len(out.value) == 2 and out.value[0] is ref.value[0] and out.value[1] is ref.value[1],
                          'the order of definitions does not depend on the iteration order of the set')
            return
        ctx.patch(settings, 'case_insensitive_completion', True)
        ctx.patch(settings, 'add_bracket_after_function', False)
        like = ctx.str('like', maxlen=1, alphabet='aA_')
        names = [ctx.str('name%d' % i, maxlen=cfg['N'], alphabet='aAb_') for i in range(cfg['m'])]
        for i in range(cfg['m']):
            for j in range(i):
                ctx.assume(names[i] != names[j])
        cands = [NameStub(n) for n in names]

        def run():
            comp = jcompletion.Completion.__new__(jcompletion.Completion)
            comp._pysym_holder = True
            leaf = Obj(parent=None)
            comp._module_node = Obj(get_leaf_for_position=lambda pos, include_prefixes=False: leaf)
            comp._original_position = (1, 0)
            comp._module_context = None
            comp._code_lines = []
            comp._fuzzy = False
            comp._like_name = like
            comp._inference_state = None
            comp.stack = None
            comp._signatures_callback = None
            comp._complete_python = lambda leaf: (None, list(cands))
            return ctx.call(jcompletion.Completion.complete, comp)
        ctx.patch(jcompletion, '_extract_string_while_in_string', lambda leaf, pos: (None, None, None))
        ctx.patch(jcompletion, 'complete_dict', lambda *a, **k: [])
        out = run()
        ctx.check(out.exc is None, 'complete() never raises')
        # reference run: the same set model, iterating in insertion order (a real set of identity-hashed objects
        # would make the reference itself depend on object addresses)
        counter.append('insertion-order')
        ref = run()
        if out.exc is not None or ref.exc is not None:
            return
        ctx.check(len(out.value) == len(ref.value), 'same number of completions')
        if len(out.value) == len(ref.value):
            ctx.check(all(a._name is b._name for a, b in zip(out.value, ref.value)),
                      'the order of completions does not depend on the iteration order of any set')


import pathlib  # noqa: E402


class _File:
    def __init__(self, path):
        self.path = pathlib.PurePosixPath(path)

    def read(self):
        return b''


class _Folder:
    def __init__(self, path, folders=(), files=()):
        self.path = path
        self.folders = list(folders)
        self.files = list(files)

    def get_base_name(self):
        return self.path.rsplit('/', 1)[-1]

    def walk(self):
        todo = [self]
        while todo:
            cur = todo.pop(0)
            kept = list(cur.folders)
            yield cur, kept, list(cur.files)
            todo = kept + todo


class C16f(Obligation):
    id = 'C16.f'
    title = 'the project walk yields files and folders in directory-listing order: no hash-ordered container decides which files come first (and so which survive the file limits)'
    pattern = 'P3 (every iteration over a native set inside the walk takes a solver-chosen order; directory tree is a stub)'
    nondet_sets = True
    assumptions = (
        'a folder with 5 python files, one other file and two sub-folders with 2 files each; which file / folder is ignored '
        '(through except_paths) is symbolic; the ITERATION ORDER OF EVERY NATIVE set the interpreted code iterates is a '
        'symbolic permutation (hash seed / addresses); membership tests are unaffected',
    )

    def scenario(self, ctx, cfg):
        names = ['zeta.py', 'alpha.py', 'mid.pyi', 'beta.py', 'omega.py', 'notes.txt']
        sub = [_Folder('/p/pkg_b', files=[_File('/p/pkg_b/m1.py'), _File('/p/pkg_b/m0.py')]),
               _Folder('/p/pkg_a', files=[_File('/p/pkg_a/n1.py'), _File('/p/pkg_a/n0.py')])]
        root = _Folder('/p', folders=sub, files=[_File('/p/' + n) for n in names])
        ignored = ctx.choice('ignored_entry', 4)       # 0 none, 1 a file, 2 a folder, 3 both
        ctx.int('unused')
        except_paths = []
        if ignored in (1, 3):
            except_paths.append('/p/beta.py')
        if ignored in (2, 3):
            except_paths.append('/p/pkg_b')
        ctx.force(jrefs.recurse_find_python_folders_and_files)
        out = ctx.call(lambda: [(f.path if f is not None else None, str(fi.path) if fi is not None else None)
                                for f, fi in jrefs.recurse_find_python_folders_and_files(root, except_paths)])
        ctx.check(out.exc is None, 'never raises')
        if out.exc is not None:
            return
        expected = []
        todo = [root]
        while todo:
            cur = todo.pop(0)
            for f in cur.files:
                if str(f.path).endswith(('.py', '.pyi')) and str(f.path) not in except_paths:
                    expected.append((None, str(f.path)))
            kept = [d for d in cur.folders if d.path not in except_paths]
            for d in kept:
                expected.append((d.path, None))
            todo = kept + todo
        ctx.check(out.value == expected, 'files and folders come in listing order, ignored ones left out')


import jedi  # noqa: E402


class _StateProxy:
    """the real inference state; records the order in which its attributes are used"""

    def __init__(self, real, log):
        object.__setattr__(self, '_real', real)
        object.__setattr__(self, '_log', log)

    def __getattr__(self, name):
        if name.startswith('_pysym') or (name.startswith('__') and name.endswith('__')):
            raise AttributeError(name)      # probes of the symbolic interpreter are not uses by jedi
        self._log.append(name)
        return getattr(self._real, name)

    def __setattr__(self, name, value):
        setattr(self._real, name, value)


QUERIES = ('complete', 'infer', 'goto', 'help', 'get_references', 'get_signatures')


class C16g(Obligation):
    id = 'C16.g'
    title = 'every positional query starts from fresh recursion budgets: the first thing it does with the inference state is the per-query reset'
    pattern = 'P5 (real Script on a small program, every in-range cursor as a solver-chosen case; the inference state is wrapped by a recording proxy)'
    interpret_modules = ('obligations',)
    assumptions = (
        'program: a function, a call of it with a cursor-able argument list; (line, column) range over all positions of the '
        'text; the query itself runs natively; whatever it returns or raises in this sandbox (no '
        'typeshed) is irrelevant here - only the order of uses of the inference state is observed',
    )

    def configs(self, tier):
        return [dict(query=q) for q in QUERIES]

    def scenario(self, ctx, cfg):
        src = 'def ident(v):\n    return v\nr = ident(ident)(1, \n'
        script = jedi.Script(src)
        log = []
        script._inference_state = _StateProxy(script._inference_state, log)
        lines = src.split('\n')
        line = ctx.choice('line_minus_1', 3) + 1
        column = ctx.choice('column', len(lines[line - 1]) + 1)
        ctx.int('unused')
        out = ctx.call(getattr(script, cfg['query']), line, column)
        ctx.observe(log[:2], 'first uses')
        ctx.check(len(log) > 0 and log[0] == 'reset_recursion_limitations',
                  'the per-query reset comes before any other use of the inference state')


OBLIGATIONS = [C16a, C16c, C16d, C16e, C16f, C16g]
