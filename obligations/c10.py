"""C10 - Import statements resolve to what Python's import system would load."""
import importlib.util
from importlib.machinery import all_suffixes

from vf.ob import Obligation, Obj
from pysym.core import HarnessError

from jedi.inference import sys_path as jsys_path
from jedi.inference import imports as jimports

SUFFIXES = all_suffixes() + ['.pyi']


def strip_stubs(ctx, s):
    return s.removesuffix('-stubs')


class C10c(Obligation):
    id = 'C10.c'
    title = 'file -> dotted name: the name is the path below the deepest sys.path entry that is a PATH prefix'
    pattern = 'P1 kernel vs reference model'
    assumptions = (
        'POSIX paths; sys.path entries are absolute, normalised directory paths (optionally with one '
        'trailing slash); path components are non-empty, contain no "/", newline or NUL and are not "." / ".."',
        'entries ending inside the file-name component are explored for file names x++y++ext with ext a literal Python suffix or no Python suffix',
        'each sys.path entry is related to the module path in one of the ways a string can be: not a string '
        'prefix, a prefix ending at a component boundary, or a prefix ending inside a component (exhaustive)',
        'pathlib name/suffix/stem/with_name/parent behave as the component-list model (CPython trusted)',
        're.sub("-stubs$", "", s) == s.removesuffix("-stubs") for components without newline',
    )
    z3_timeout = 4.0
    cvc5_timeout = 60.0
    findings = {'C10-stringprefix': 'a sys.path entry that is a string prefix but not a path prefix of the file'}

    def configs(self, tier):
        if tier == 'quick':
            shapes = ((1, 1), (1, 2))
        else:
            shapes = ((1, 1), (1, 2), (1, 3), (2, 2))
        return [dict(entries=e, depth=d, maxlen=0, ext=x) for e, d in shapes
                for x in range(len(SUFFIXES) + 1)]

    def scenario(self, ctx, cfg):
        depth = cfg['depth']
        ml = cfg["maxlen"] or None
        # every component is a concatenation of two atoms so that an entry may end inside it
        halves = []
        comps = []
        for i in range(depth - 1):
            x = ctx.str('m%dx' % i, maxlen=ml, exclude='/\n\0')
            y = ctx.str('m%dy' % i, maxlen=ml, exclude='/\n\0')
            c = x + y
            ctx.assume(ctx.And(ctx.len(c) > 0, c != '.', c != '..'))
            halves.append((x, y))
            comps.append(c)
        fx = ctx.str('fx', maxlen=ml, exclude='/\n\0')
        fy = ctx.str('fy', maxlen=ml, exclude='/\n\0')
        ext = (SUFFIXES + [''])[cfg['ext']]
        fname = fx + fy + ext
        ctx.assume(ctx.And(ctx.len(fname) > 0, fname != '.', fname != '..'))
        module_path = ctx.path(comps + [fname])

        # ---- reference: the path without Python suffix / __init__
        suffix = module_path.suffix
        has_suffix = ctx.Or(*[suffix == s for s in SUFFIXES])
        if has_suffix:
            base = module_path.stem
        else:
            base = fname
        hidden = base.startswith('.')
        pkg = True if base == '__init__' else False
        target = comps if pkg else comps + [base]
        target_str = '/' + '/'.join(target)

        # ---- sys.path entries, by their relation to the target path
        sys_path = []
        aligned = []        # component counts of the entries that are path prefixes
        inside_entry = False
        for j in range(cfg['entries']):
            kind = ctx.oneof('entry%d_kind' % j, ('unrelated', 'aligned', 'inside'))
            if kind == 'unrelated':
                k = ctx.choice('entry%d_len' % j, 3)
                ecomps = [ctx.component('e%d_%d' % (j, i), ml) for i in range(k)]
                s = '/' + '/'.join(ecomps)
                if k > 0 and ctx.flag('entry%d_trailing_slash' % j):
                    s = s + '/'
                ctx.assume(ctx.Not(target_str.startswith(s)))
            elif kind == 'aligned':
                k = ctx.choice('entry%d_at' % j, len(target) + 1)
                s = '/' + '/'.join(target[:k])
                if k > 0 and ctx.flag('entry%d_trailing_slash' % j):
                    s = s + '/'
                aligned.append(k)
            else:
                if not target:
                    ctx.assume(False)
                k = ctx.choice('entry%d_in' % j, len(target))
                if k < len(halves):
                    x, y = halves[k]
                    ctx.assume(ctx.And(ctx.len(x) > 0, ctx.len(y) > 0))
                    pre = x
                else:
                    # inside the file-name component: explored where its stem is fx ++ fy
                    # (literal suffix, or no Python suffix at all)
                    if has_suffix and ext == '':
                        ctx.assume(False)
                    ctx.assume(ctx.And(ctx.len(fx) > 0, ctx.len(fy) > 0))
                    pre = fx
                s = '/' + '/'.join(list(target[:k]) + [pre])
                inside_entry = True
            sys_path.append(s)

        out = ctx.call(jsys_path.transform_path_to_dotted, sys_path, module_path)
        ctx.check(out.exc is None, 'never raises')
        if out.exc is not None:
            return
        names, is_pkg = out.value
        known = {'C10-stringprefix': inside_entry}
        usable = [k for k in aligned if k < len(target)]
        if hidden or not usable:
            ctx.check(ctx.And(names is None, is_pkg is False),
                      '(None, False) when no sys.path entry is a parent directory', known=known)
            return
        ctx.check(names is not None, 'a file below a sys.path entry gets a dotted name')
        if names is None:
            return
        kmax = max(usable)
        expected = tuple(t.removesuffix('-stubs') if not isinstance(t, str) else t.removesuffix('-stubs')
                         for t in target[kmax:])
        ctx.check(len(names) == len(expected), 'shortest dotted name: below the deepest parent entry',
                  known=known)
        if len(names) == len(expected):
            ctx.check(ctx.And(*[names[i] == expected[i] for i in range(len(expected))]),
                      'dotted name = path components below the sys.path entry', known=known)
        ctx.check(ctx.iff(is_pkg, pkg), 'is_package iff the file is __init__')


def resolve_name_ref(base, import_path, level):
    """importlib._bootstrap._resolve_name on tuples: drop level-1 trailing package components"""
    n = len(base)
    return tuple(base[:n - (level - 1)]) + tuple(import_path)


class ModValue:
    _pysym_holder = True

    def __init__(self, package):
        self._package = package

    def py__package__(self):
        return self._package


class ModContext:
    _pysym_holder = True

    def __init__(self, package, path):
        self._value = ModValue(package)
        self._path = path

    def get_value(self):
        return self._value

    def py__file__(self):
        return self._path


class C10a(Obligation):
    id = 'C10.a'
    title = 'relative import level rewriting == importlib._resolve_name'
    pattern = 'P1 kernel vs reference (reference cross-checked against importlib.util.resolve_name natively)'
    assumptions = (
        'the importing module knows its package (py__package__) as a list of names',
        'only the in-package branch (level <= len(package)) is compared with importlib; the heuristic '
        'branch beyond the top-level package is covered by C10.b',
    )

    def configs(self, tier):
        return [dict(n=n, k=k) for n in range(1, 5 if tier == 'quick' else 7) for k in (0, 1, 2)]

    def scenario(self, ctx, cfg):
        n, k = cfg['n'], cfg['k']
        base = ['pkg%d' % i for i in range(n)]
        import_path = tuple('name%d' % i for i in range(k))
        level = ctx.int('level', 1, n)
        imp = jimports.Importer.__new__(jimports.Importer)
        state = Obj(project=Obj(path='/project'))
        out = ctx.call(jimports.Importer.__init__, imp, state, import_path, ModContext(base, '/project/x.py'), level)
        ctx.check(out.exc is None, 'Importer() never raises')
        if out.exc is not None:
            return
        # fork the level into a concrete value for the reference
        lv = 1
        while lv < n and level != lv:
            lv += 1
        expected = resolve_name_ref(base, import_path, lv)
        if not ctx.symbolic:
            real = importlib.util.resolve_name('.' * lv + '.'.join(import_path), '.'.join(base))
            if real != '.'.join(expected):
                raise HarnessError('reference model disagrees with importlib: %r vs %r' % (real, expected))
        ctx.check(tuple(imp.import_path) == expected, 'import path == importlib.util.resolve_name')
        ctx.check(ctx.And(imp._infer_possible is True, imp._fixed_sys_path is None),
                  'in-package relative imports use the normal search path')


from jedi.inference.compiled.subprocess import functions as jfunctions  # noqa: E402


class C10d(Obligation):
    id = 'C10.d'
    title = 'sub-module search never falls back to a top-level (sys.path-wide) lookup of the bare name'
    pattern = 'P5 decision table (importlib finders are stubs with symbolic answers)'
    assumptions = (
        'importlib.machinery.PathFinder.find_spec and importlib.util.find_spec are stubs answering found / not found '
        '(symbolic); _from_loader is a stub returning which loader was used',
    )

    def scenario(self, ctx, cfg):
        has_path = ctx.flag('search_inside_a_package_path')
        given_loader = ctx.flag('loader_given')
        path_finder_finds = ctx.flag('PathFinder_finds_it')
        global_finds = ctx.flag('top_level_lookup_would_find_a_module_of_that_name')
        ctx.int('unused')
        calls = []

        def path_find_spec(string, path=None):
            calls.append(('PathFinder', path))
            return Obj(loader='LOADER-FROM-PATH') if path_finder_finds else None

        def util_find_spec(string):
            calls.append(('global', string))
            return Obj(loader='LOADER-GLOBAL') if global_finds else None

        fake = Obj(machinery=Obj(PathFinder=Obj(find_spec=path_find_spec)), util=Obj(find_spec=util_find_spec))
        ctx.patch(jfunctions, 'importlib', fake)
        ctx.patch(jfunctions, '_from_loader', lambda loader, string: ('loaded-by', loader))
        ctx.force(jfunctions._find_module_py33)
        path = ['/pkg/dir'] if has_path else None
        out = ctx.call(jfunctions._find_module_py33, 'name', path, 'GIVEN-LOADER' if given_loader else None)
        used_global = ('global', 'name') in calls
        if has_path:
            ctx.check(not used_global, 'a search below a package never consults the interpreter-wide lookup')
            if not given_loader and not path_finder_finds:
                ctx.check(out.raised(ImportError), 'a missing sub-module is an ImportError, as in Python')
        if given_loader:
            ctx.check(out.exc is None and out.value == ('loaded-by', 'GIVEN-LOADER'), 'a given loader is used as is')
        elif path_finder_finds:
            ctx.check(out.exc is None and out.value == ('loaded-by', 'LOADER-FROM-PATH'), 'the path finder\'s loader wins')
        elif not has_path and global_finds:
            ctx.check(out.exc is None and out.value == ('loaded-by', 'LOADER-GLOBAL'), 'top-level search may fall back to builtins')
        else:
            ctx.check(out.raised(ImportError), 'nothing found => ImportError')


class C10b(Obligation):
    id = 'C10.b'
    title = 'relative import beyond the top-level package: never raises, and any guessed base lies at the project root'
    pattern = 'P1 (Importer.__init__ heuristic branch + _level_to_base_import_path over structured paths)'
    assumptions = (
        'the importing file lies d<=3 directories below the project root or outside it; level > len(package) '
        '(symbolic, <=6); import path of 0..2 names; paths are concrete component lists (POSIX), os.path is real',
    )

    def configs(self, tier):
        return [dict(depth=d, k=k, where=w) for d in (0, 1, 2, 3) for k in (0, 1, 2) for w in ('inside', 'outside', 'nopath')]

    def scenario(self, ctx, cfg):
        depth, k = cfg['depth'], cfg['k']
        project = '/home/proj'
        sub = ['s%d' % i for i in range(depth)]
        if cfg['where'] == 'inside':
            path = '/'.join([project] + sub + ['mod.py'])
        elif cfg['where'] == 'outside':
            path = '/'.join(['/elsewhere'] + sub + ['mod.py'])
        else:
            path = None
        n_pkg = ctx.choice('package_depth', depth + 1)           # how many of the dirs are packages
        base = ['pkg%d' % i for i in range(n_pkg)]
        level = ctx.int('level', n_pkg + 1, 6)
        import_path = tuple('name%d' % i for i in range(k))
        errors = []
        ctx.patch(jimports, '_add_error', lambda ctx_, name, message=None: errors.append(message))
        imp = jimports.Importer.__new__(jimports.Importer)
        state = Obj(project=Obj(path=project))
        out = ctx.call(jimports.Importer.__init__, imp, state, import_path, ModContext(base, path), level)
        ctx.check(out.exc is None, 'Importer() never raises for an import beyond the top-level package')
        if out.exc is not None:
            return
        ctx.check(imp.import_path is not None and len(imp.import_path) >= 0, 'an import path is always set')
        if imp._fixed_sys_path is not None:
            ctx.check(imp._fixed_sys_path == [project] or not imp._infer_possible or
                      all(isinstance(p, str) for p in imp._fixed_sys_path), 'the guessed search root is a directory path')
        # the guess: names + root reproduce the directory `level-1` levels above the file
        if imp._infer_possible and imp._fixed_sys_path == [project] and len(imp.import_path) >= k:
            guessed = list(imp.import_path)[:len(imp.import_path) - k]
            start = (project if path is None else '/'.join(path.split('/')[:-1])).split('/')
            lv = n_pkg + 1
            while lv < 6 and level != lv:
                lv += 1
            target = start[:len(start) - (lv - 1)]
            ctx.check('/'.join([project] + guessed) == '/'.join(target),
                      'project root + guessed names is the directory level-1 levels above the importing file')


from jedi.inference.value.module import ModuleValue  # noqa: E402


class C10e(Obligation):
    id = 'C10.e'
    title = 'only packages have a __path__: a plain module never offers a directory to search sub-modules in'
    pattern = 'P5 decision table'
    assumptions = ('module value stubs: package / plain module, with / without a namespace declaration in its first lines',)

    def scenario(self, ctx, cfg):
        is_package = ctx.flag('is_package')
        declares_ns = ctx.flag('declares_namespace')
        ctx.int('unused')
        m = ModuleValue.__new__(ModuleValue)
        m._pysym_holder = True
        m._is_package = is_package
        m.code_lines = ['__path__ = __import__("pkgutil").extend_path(__path__, __name__)\n'] if declares_ns else ['x = 1\n']
        m.inference_state = Obj(get_sys_path=lambda: [])
        m._path = None
        ctx.patch(ModuleValue, 'py__file__', lambda self: __import__('pathlib').Path('/proj/pkg/__init__.py' if is_package else '/proj/pkg/mod.py'))
        ctx.patch(ModuleValue, 'name', Obj(string_name='pkg'))
        ctx.force(ModuleValue.py__path__)
        out = ctx.call(ModuleValue.py__path__, m)
        ctx.check(out.exc is None, 'never raises')
        if out.exc is None:
            if is_package:
                ctx.check(out.value == ['/proj/pkg'], 'a package searches its own directory')
            else:
                ctx.check(out.value is None, 'a plain module has no __path__ (import a.b through a module must fail)')


class C10f(Obligation):
    id = 'C10.f'
    title = 'goto on "from . import name" follows the sub-module with the SAME relative level as infer does'
    pattern = 'P3 (import preparation and Importer are recording stubs; level symbolic)'
    assumptions = ('_prepare_infer_import is a stub returning a symbolic level; attribute goto on the package finds nothing '
                   '(so the sub-module fallback is taken); Importer is a recording stub',)

    def scenario(self, ctx, cfg):
        level = ctx.int('level', 0, 4)
        made = []
        tree_name = Obj(tag='tree-name')
        pkg_value = Obj(goto=lambda name, name_context=None, analysis_errors=True: [])
        ctx.patch(jimports, '_prepare_infer_import',
                  lambda module_context, tn: ('util', ('pkg',), level, [pkg_value]))

        class_importer = lambda state, path, module_context, lvl=0: made.append((path, lvl)) or Obj(follow=lambda: [])
        ctx.patch(jimports, 'Importer', class_importer)
        context = Obj(get_root_context=lambda: 'MODULE-CONTEXT', inference_state=Obj(memoize_cache={}))
        ctx.force(jimports.goto_import)
        out = ctx.call(jimports.goto_import, context, tree_name)
        ctx.check(out.exc is None, 'never raises')
        ctx.check(len(made) == 1 and made[0][0] == ('pkg', 'util'), 'the sub-module pkg.util is looked for')
        if len(made) == 1:
            ctx.check(made[0][1] == level, 'with the relative level of the import statement')


import ast  # noqa: E402
import io  # noqa: E402
import tokenize  # noqa: E402

import jedi  # noqa: E402

IMPORT_CORPUS = """from . import x
from .. import up as alias
from .m import y
from a.b import c, d as e
import p.q
import r.s as t
from ... import (u, v)
from k import w
"""


def import_expectations(src):
    """{(line, col): (from_import_name, import_path, level)} for every identifier token of an import statement that
    names a module part or an imported name (the binding alias after `as` resolves like the name it renames)"""
    tree = ast.parse(src)
    toks = [t for t in tokenize.generate_tokens(io.StringIO(src).readline) if t.type == tokenize.NAME]
    out = {}
    for node in tree.body:
        line_toks = [t for t in toks if t.start[0] == node.lineno and t.string not in ('from', 'import', 'as')]
        if isinstance(node, ast.ImportFrom):
            parts = tuple(node.module.split('.')) if node.module else ()
            for i, part in enumerate(parts):
                t = line_toks[i]
                out[t.start] = (None, parts[:i + 1], node.level)
            rest = line_toks[len(parts):]
            k = 0
            for al in node.names:
                out[rest[k].start] = (al.name, parts, node.level)
                k += 1
                if al.asname:
                    out[rest[k].start] = (al.name, parts, node.level)
                    k += 1
        else:
            k = 0
            for al in node.names:
                parts = tuple(al.name.split('.'))
                for i in range(len(parts)):
                    out[line_toks[k].start] = (None, parts[:i + 1], 0)
                    k += 1
                if al.asname:
                    out[line_toks[k].start] = (None, parts, 0)
                    k += 1
    return out


class C10g(Obligation):
    id = 'C10.g'
    title = 'from-imports: the imported name is looked up as an ATTRIBUTE of the package first (also for "from . import x"), with the statement\'s dots as level'
    pattern = 'P4 concrete tree x symbolic cursor; reference from CPython ast; Importer is a recording stub'
    interpret_modules = ('jedi', 'parso', 'obligations')
    loop_bound = 400
    max_paths = 3000
    assumptions = (
        'a corpus of import statements (relative with 1-3 dots, with and without module part, aliases, parenthesised '
        'lists, plain dotted imports); the cursor is symbolic and resolved by the interpreted get_leaf_for_position; '
        'Importer is a stub recording (path, level) - what _prepare_infer_import decides is which part is the package '
        'and which the attribute',
    )

    def scenario(self, ctx, cfg):
        src = IMPORT_CORPUS
        script = jedi.Script(src)
        exp = import_expectations(src)
        line = ctx.int('line')
        column = ctx.int('column')
        ctx.assume(ctx.Or(*[ctx.And(line == l, c < column, column <= c + 1) for (l, c) in exp]))
        leaf = ctx.run(script._module_node.get_leaf_for_position, (line, column))
        if leaf is None or leaf.start_pos not in exp:
            ctx.check(False, 'the position resolves to the import token')
            return
        made = []
        ctx.patch(jimports, 'Importer', lambda state, path, module_context, level=0:
                  Obj(follow=lambda: made.append((tuple(getattr(n, 'value', n) for n in path), level)) or 'VALUES'))
        ctx.force(jimports._prepare_infer_import)
        out = ctx.call(jimports._prepare_infer_import, Obj(inference_state=None), leaf)
        ctx.check(out.exc is None, 'never raises')
        if out.exc is not None:
            return
        from_name, path, level, values = out.value
        got = (getattr(from_name, 'value', from_name), tuple(getattr(n, 'value', n) for n in path), level)
        ctx.observe((leaf.value, leaf.start_pos, got), 'import')
        ctx.check(got == exp[leaf.start_pos], 'package part, attribute name and level are those of the statement')
        ctx.check(made == [(got[1], got[2])] and values == 'VALUES', 'exactly the package part is imported, with the level of the statement')


class C10h(Obligation):
    id = 'C10.h'
    title = 'helper-side module search: finders are asked in sys.meta_path order, a frozen spec is never taken (top-level or sub-module), the first usable spec wins'
    pattern = 'P5 decision table (sys.meta_path finders are stubs with symbolic answers)'
    assumptions = (
        'sys.meta_path holds F<=3 finders, the last one is importlib.machinery.PathFinder; every finder answers '
        'symbolically: no find_spec attribute / None / frozen spec / spec with loader / namespace spec; '
        '_find_module_py33 is a recording stub',
    )

    def configs(self, tier):
        return [dict(F=f) for f in (1, 2, 3)]

    def scenario(self, ctx, cfg):
        F = cfg['F']
        is_global = ctx.flag('is_global_search')
        has_path = ctx.flag('search_path_given')
        path = ['/pkg/dir'] if has_path else None
        answers = [ctx.choice('finder%d_answer' % i, 5) for i in range(F)]   # 0 old-style 1 None 2 frozen 3 loader 4 namespace
        asked = []
        finders = []
        real_pf = jfunctions.importlib.machinery.PathFinder

        def make(i):
            ans = answers[i]

            def find_spec(string, p=None):
                asked.append((i, p))
                if ans == 1:
                    return None
                if ans == 2:
                    return Obj(origin='frozen', loader='FROZEN-LOADER-%d' % i, has_location=False)
                if ans == 3:
                    return Obj(origin='/x/%d.py' % i, loader='LOADER-%d' % i, has_location=True)
                return Obj(origin=None, loader=None, has_location=False,
                           submodule_search_locations=Obj(_path=['/ns/%d' % i]))
            if i == F - 1:
                pf = Obj(tag='PathFinder') if ans == 0 else Obj(tag='PathFinder', find_spec=find_spec)
                return pf
            return Obj(tag='finder%d' % i) if ans == 0 else Obj(tag='finder%d' % i, find_spec=find_spec)
        for i in range(F):
            finders.append(make(i))
        fake_importlib = Obj(machinery=Obj(PathFinder=finders[-1]), util=jfunctions.importlib.util)
        ctx.patch(jfunctions, 'importlib', fake_importlib)
        ctx.patch(jfunctions, 'sys', Obj(meta_path=finders))
        ctx.patch(jfunctions, '_find_module_py33', lambda string, path=None, loader=None, *a, **k: ('py33', path, loader))
        ctx.force(jfunctions._find_module)
        out = ctx.call(jfunctions._find_module, 'name', path, 'full.name', is_global)
        ctx.check(out.exc is None, 'never raises')
        if out.exc is not None:
            return
        # reference
        exp_asked = []
        result = None
        for i in range(F):
            if answers[i] == 0:
                continue
            exp_asked.append((i, None if (is_global and i != F - 1) else path))
            if answers[i] in (1, 2):
                continue
            if answers[i] == 3:
                result = ('py33', path, 'LOADER-%d' % i)
            else:
                result = 'namespace'
            break
        if result is None:
            result = ('py33', path, None)
        ctx.check(asked == exp_asked, 'finders are asked in order; only the path finder gets the search path of a top-level search')
        if result == 'namespace':
            ctx.check(isinstance(out.value, tuple) and out.value[1] is True and not isinstance(out.value[0], str),
                      'a namespace spec is reported as an implicit namespace package')
        else:
            ctx.check(out.value == result, 'the loader of the first usable (non-frozen) spec is used; a frozen spec never')


OBLIGATIONS = [C10a, C10b, C10c, C10d, C10e, C10f, C10g, C10h]
