"""C06 - Extract and inline refactorings keep the program valid and equivalent (decision kernels)."""
from vf.ob import Obligation, Obj

from jedi.api import refactoring as R
from jedi.api.exceptions import RefactoringError

# Binding strength of parso expression node types, from Python's grammar (low binds loosest).
STRENGTH = {
    'yield_expr': -2, 'testlist_star_expr': -1, 'star_expr': -1,
    'namedexpr_test': 0, 'lambdef': 1, 'test': 1,
    'or_test': 2, 'and_test': 3, 'not_test': 4, 'comparison': 5,
    'expr': 6, 'xor_expr': 7, 'and_expr': 8, 'shift_expr': 9, 'arith_expr': 10, 'term': 11,
    'factor': 12, 'power': 13, 'atom_expr': 14, 'atom': 14, 'name': 14, 'number': 14, 'string': 14,
}
PRIMARY = 14

# Where the inlined name may stand: parent node type -> weakest expression the grammar accepts there
# unparenthesised (for operator nodes: also the operand level, which is the node's own level + 1 in the
# worst case, i.e. the right operand of a left-associative operator).
SLOTS = {
    # statements and containers whose grammar slot is `test`/`namedexpr_test`/`testlist`
    'expr_stmt': -2, 'return_stmt': -1,
    'if_stmt': 0, 'while_stmt': 0, 'assert_stmt': 1, 'arglist': 0, 'testlist_comp': 0,
    'argument': 1, 'subscript': 1, 'dictorsetmaker': 1, 'lambdef': 1, 'namedexpr_test': 1,
    'for_stmt': -1, 'with_item': 1, 'raise_stmt': 1,
    # `x if c else y`: the condition and the first branch are or_test
    'test': 2,
    # comprehension: `for t in or_test`, `if or_test`
    'sync_comp_for': 2, 'comp_if': 2,
    # `*x`: expr
    'star_expr': 6,
    # operator nodes: an operand must bind tighter than the operator in the worst case
    'or_test': 3, 'and_test': 4, 'not_test': 4, 'comparison': 6, 'expr': 7, 'xor_expr': 8, 'and_expr': 9,
    'shift_expr': 10, 'arith_expr': 11, 'term': 12, 'factor': 12, 'power': 14, 'atom_expr': 14,
    # attribute access on the inlined value (`x.attr` with the name as the first child of atom_expr is
    # covered by atom_expr); `.x` trailers are replaced as a whole
}


class Op:
    def __init__(self, value):
        self.value = value
        self.type = 'operator'

    def __eq__(self, other):
        return self.value == other

    def __ne__(self, other):
        return self.value != other

    def __hash__(self):
        return hash(self.value)

    def get_code(self, include_prefix=True):
        return self.value


class TreeName:
    _pysym_holder = True

    def __init__(self, is_def, definition=None, parent=None, prefix=' '):
        self._is_def = is_def
        self._definition = definition
        # every real name token has a parent node; a definition's parent is its statement
        self.parent = parent if parent is not None else (definition if definition is not None else Obj(type='expr_stmt'))
        self.prefix = prefix
        self.type = 'name'

    def is_definition(self):
        return self._is_def

    def get_definition(self):
        return self._definition


class NameStub:
    _pysym_holder = True
    api_type = 'statement'

    def __init__(self, tree_name):
        self.tree_name = tree_name

    def get_root_context(self):
        return Obj(py__file__=lambda: None)


def make_definition(rhs_type, op='='):
    rhs = Obj(type=rhs_type, get_code=lambda include_prefix=True: 'RHS')
    lhs = Obj(type='name')
    stmt = Obj(type='expr_stmt', children=[lhs, Op(op), rhs],
               get_defined_names=lambda include_setitem=False: [lhs],
               get_rhs=lambda: rhs,
               get_first_leaf=lambda: Obj(prefix=''),
               get_next_leaf=lambda: Obj(prefix='', type='newline'))
    return stmt


class C06a(Obligation):
    id = 'C06.a'
    title = 'inline: the inlined right-hand side is parenthesised whenever Python\'s grammar requires it'
    pattern = 'P1 decision kernel vs binding-strength reference (node types symbolic)'
    assumptions = (
        'the right-hand side type and the type of the parent node of the reference are symbolic strings ranging '
        'over parso\'s expression node types / the listed slot types; names and nodes are stubs',
        'reference: parentheses are required iff the binding strength of the right-hand side is below what the '
        'slot accepts (table written from Python\'s grammar); over-parenthesising is allowed',
    )
    findings = {'C06-inline-parens': 'weakly binding right-hand side (ternary, lambda, walrus, or/and/not ..., yield) inlined '
                                     'into a slot whose parent node is not an operator node'}

    def configs(self, tier):
        return [dict(slot=s) for s in sorted(SLOTS)]

    def scenario(self, ctx, cfg):
        rhs_type = ctx.str('rhs_type', maxlen=20)
        ctx.assume(ctx.Or(*[rhs_type == t for t in STRENGTH]))
        slot = cfg['slot']
        parent = Obj(type=slot, get_next_sibling=lambda: None, children=[Op('(')])
        stmt = make_definition(rhs_type)
        definition = NameStub(TreeName(True, stmt))
        ref_tree_name = TreeName(False, None, parent)
        reference = NameStub(ref_tree_name)
        out = ctx.call(R.inline, None, [definition, reference])
        ctx.check(out.exc is None, 'a single plain assignment with one reference is inlined')
        if out.exc is not None:
            return
        changes = out.value._file_to_node_changes[None]
        text = changes[ref_tree_name]
        parenthesised = text == ' (RHS)'
        ctx.check(parenthesised or text == ' RHS', 'the reference is replaced by the right-hand side, prefix kept')
        strength = STRENGTH[rhs_type]
        needed = strength < SLOTS[slot]
        ctx.check(ctx.implies(needed, parenthesised),
                  'parentheses are added whenever the grammar would otherwise re-associate the expression',
                  known={'C06-inline-parens': ctx.And(needed, slot not in R.EXPRESSION_PARTS,
                                                      rhs_type != 'testlist_star_expr')})
        ctx.check(changes[stmt] == '', 'the defining statement is removed')


REFUSALS = ('no_names', 'module', 'builtin', 'no_definition', 'two_definitions', 'no_reference',
            'funcdef', 'classdef', 'multiple_targets', 'augmented', 'annotation_only', 'ok')


class C06b(Obligation):
    id = 'C06.b'
    title = 'inline refuses (with RefactoringError only) everything but one plain single-target assignment with a reference'
    pattern = 'P5 decision table'
    assumptions = ('names/nodes are stubs covering each refusal cause once',)

    def configs(self, tier):
        return [dict(case=c) for c in REFUSALS]

    def scenario(self, ctx, cfg):
        case = cfg['case']
        ctx.int('unused')
        stmt = make_definition('atom')
        if case == 'funcdef':
            stmt.type = 'funcdef'
        if case == 'classdef':
            stmt.type = 'classdef'
        if case == 'multiple_targets':
            stmt.get_defined_names = lambda include_setitem=False: [1, 2]
        if case == 'augmented':
            stmt.children[1] = Op('+=')
        if case == 'annotation_only':
            stmt.children[1] = Obj(type='annassign', children=[Op(':'), Obj(type='name')],
                                   get_code=lambda include_prefix=True: ': int')
        d = NameStub(TreeName(True, stmt))
        parent = Obj(type='expr_stmt', get_next_sibling=lambda: None, children=[Op('(')])
        r = NameStub(TreeName(False, None, parent))
        names = [d, r]
        if case == 'no_names':
            names = []
        if case == 'module':
            d.api_type = 'module'
        if case == 'builtin':
            r.tree_name = None
        if case == 'no_definition':
            names = [r, NameStub(TreeName(False, None, parent))]
        if case == 'two_definitions':
            names = [d, NameStub(TreeName(True, stmt)), r]
        if case == 'no_reference':
            names = [d]
        out = ctx.call(R.inline, None, names)
        if case == 'ok':
            ctx.check(out.exc is None, 'the plain case is accepted')
        else:
            ctx.check(out.raised(RefactoringError), 'refused with RefactoringError (and nothing else)')


from jedi.api.refactoring import extract as X  # noqa: E402


class Leaf:
    type = 'name'

    def __init__(self, value, is_def):
        self.value = value
        self._is_def = is_def

    def is_definition(self):
        return self._is_def


class C06d(Obligation):
    id = 'C06.d'
    title = 'extract_function returns exactly the variables of the selection that are read after it'
    pattern = 'P3 (statements after the selection are stubs with symbolic positions / tokens)'
    assumptions = (
        'straight-line code after the selection: S<=3 statements with symbolic start lines, each holding 1-2 name '
        'tokens whose spelling is drawn from {v0, v1, other} and whose definition/reference role is symbolic',
    )

    def configs(self, tier):
        return [dict(S=1, T=2), dict(S=2, T=1)] if tier == 'quick' else [dict(S=1, T=2), dict(S=2, T=2), dict(S=3, T=1)]

    def scenario(self, ctx, cfg):
        S = cfg['S']
        at_line = ctx.int('selection_end_line', 1)
        stmts = []
        info = []
        for i in range(S):
            line = ctx.int('stmt%d_line' % i, 1)
            toks = []
            for j in range(cfg['T']):
                value = ctx.oneof('stmt%d_tok%d' % (i, j), ('v0', 'v1', 'other'))
                is_def = ctx.flag('stmt%d_tok%d_is_definition' % (i, j))
                toks.append(Leaf(value, is_def))
            stmts.append(Obj(type='expr_stmt', start_pos=(line, 0), children=toks))
            info.append((line, toks))
        for i in range(1, S):
            ctx.assume(info[i - 1][0] < info[i][0])
        search_node = Obj(children=stmts)
        out = ctx.call(lambda: list(X._find_needed_output_variables(None, search_node, (at_line, 0), ['v0', 'v1'])))
        ctx.check(out.exc is None, 'never raises')
        if out.exc is not None:
            return
        got = out.value
        ctx.check(len(got) == len(set(got)), 'each variable is returned at most once')
        for v in ('v0', 'v1'):
            read_after = ctx.Or(*[ctx.And(line >= at_line, t.value == v, not t._is_def)
                                  for line, toks in info for t in toks])
            ctx.check(ctx.iff(v in got, read_after), 'a variable is returned iff it is read after the selection')


class C06f(Obligation):
    id = 'C06.f'
    title = 'extract_function passes a used variable as a parameter iff SOME definition of it lies outside the selection'
    pattern = 'P3 (goto results of the used name are stubs with symbolic positions)'
    assumptions = ('a name with k<=3 definitions found by goto, each local/param or module-level (symbolic), at a symbolic '
                   'position; the selection is [first, last) with symbolic lines',)

    def configs(self, tier):
        return [dict(k=k) for k in (1, 2, 3)]

    def scenario(self, ctx, cfg):
        k = cfg['k']
        first = (ctx.int('first_line', 1), 0)
        last = (ctx.int('last_line', 1), 0)
        ctx.assume(first[0] < last[0])
        module_context = Obj(tag='module')
        names = []
        info = []
        for i in range(k):
            is_param = ctx.flag('def%d_is_param' % i)
            in_module_scope = ctx.flag('def%d_at_module_level' % i)
            line = ctx.int('def%d_line' % i, 1)
            names.append(Obj(api_type='param' if is_param else 'statement',
                             parent_context=Obj(is_module=lambda m=in_module_scope: m),
                             get_root_context=lambda: module_context, start_pos=(line, 0)))
            info.append((is_param, in_module_scope, line))
        out = ctx.call(X._is_name_input, module_context, names, first, last)
        ctx.check(out.exc is None, 'never raises')
        if out.exc is None:
            outside = ctx.Or(*[ctx.And(ctx.Or(p, not m), ctx.Not(ctx.And(first[0] <= l, l < last[0])))
                               for p, m, l in info])
            ctx.check(ctx.iff(out.value, outside),
                      'input iff at least one local/parameter definition lies outside the selected range')


class C06g(Obligation):
    id = 'C06.g'
    title = 'extract_function inserts the new function in front of the WHOLE definition (all decorator / async wrappers)'
    pattern = 'P3 (wrapper nesting symbolic)'
    assumptions = ('the method is wrapped by 0..3 nodes of kind decorated / async_funcdef / async_stmt (symbolic) inside a class',)

    def scenario(self, ctx, cfg):
        depth = ctx.choice('wrapper_levels', 4)
        ctx.int('unused')
        suite = Obj(type='suite', parent=Obj(type='classdef', parent=Obj(type='file_input')))
        outer = suite
        wrappers = []
        for i in range(depth):
            kind = ctx.oneof('wrapper%d' % i, ('decorated', 'async_funcdef', 'async_stmt'))
            w = Obj(type=kind, parent=outer)
            wrappers.append(w)
            outer = w
        func = Obj(type='funcdef', parent=outer)
        ctx.patch(X, 'function_is_staticmethod', lambda node: False)
        out = ctx.call(X._get_code_insertion_node, func, True)
        ctx.check(out.exc is None, 'never raises')
        if out.exc is None:
            ctx.check(out.value is (wrappers[0] if wrappers else func),
                      'the insertion point is the outermost wrapper of the method (decorators stay with the method)')


class C06h(Obligation):
    id = 'C06.h'
    title = 'extract_function: a variable becomes a parameter if ANY of its reads in the selection needs an outside value (not only the first one)'
    pattern = 'P3 (stream of K name occurrences with symbolic spelling, role and per-occurrence lookup answer)'
    assumptions = (
        'the selection mentions K<=4 name tokens, each spelled x or y (symbolic), defining or reading (symbolic); for a read '
        'the lookup finds nothing / a definition outside the selection / only definitions inside it (symbolic per '
        'occurrence: the answer depends on the position of the read); _find_non_global_names and _is_name_input are stubs',
    )

    def configs(self, tier):
        return [dict(K=k) for k in ((2, 3) if tier == 'quick' else (1, 2, 3, 4))]

    def scenario(self, ctx, cfg):
        K = cfg['K']
        occ = []
        for i in range(K):
            spelling = ctx.oneof('occurrence%d_name' % i, ('x', 'y'))
            is_def = ctx.flag('occurrence%d_defines' % i)
            answer = ctx.choice('occurrence%d_lookup' % i, 3)     # 0 nothing found, 1 outside definition, 2 only inside
            occ.append((spelling, is_def, answer))
        names = [Obj(value=sp, is_definition=(lambda d=d: d), start_pos=(1, i), tag='occ%d' % i, answer=a)
                 for i, (sp, d, a) in enumerate(occ)]
        ctx.patch(X, '_find_non_global_names', lambda nodes: iter(names))
        ctx.patch(X, '_is_name_input', lambda module_context, defs, first, last: defs[0] == 'outside')
        context = Obj(goto=lambda name, pos: [] if name.answer == 0 else ['outside' if name.answer == 1 else 'inside'])
        nodes = [Obj(start_pos=(1, 0), end_pos=(1, 9))]
        ctx.force(X._find_inputs_and_outputs)
        out = ctx.call(X._find_inputs_and_outputs, None, context, nodes)
        ctx.check(out.exc is None, 'never raises')
        if out.exc is not None:
            return
        inputs, outputs = out.value
        for v in ('x', 'y'):
            needed = any(sp == v and not d and a in (0, 1) for sp, d, a in occ)
            ctx.check((v in inputs) == needed, 'a name is an input iff some read of it needs a value from outside the selection')
            ctx.check(inputs.count(v) <= 1, 'and is listed once')
            ctx.check((v in outputs) == any(sp == v and d for sp, d, a in occ), 'a name is an output candidate iff the selection binds it')


import ast as _ast  # noqa: E402

import jedi as _jedi  # noqa: E402

INLINE_CORPUS = [
    'a = 3\nprint(a)\n',
    'a = b = 3\nprint(a)\n',
    'a = d[0] = 3\nprint(a)\n',
    'd[0] = a = 3\nprint(a)\n',
    'a = o.attr = 3\nprint(a)\n',
    'a, b = 3, 4\nprint(a)\n',
    'a: int = 3\nprint(a)\n',
    'a: int\nprint(a)\n',
    'a += 3\nprint(a)\n',
    '(a) = 3\nprint(a)\n',
    'a = s[1:2] = [3]\nprint(a)\n',
    'for a in x: pass\nprint(a)\n',
]


class C06i(Obligation):
    id = 'C06.i'
    title = 'inline accepts a definition only if deleting the statement loses nothing: ONE target, a plain name (no second name, subscript or attribute target)'
    pattern = 'P4 (real parso statements chosen by a symbolic index; reference from CPython ast)'
    interpret_modules = ('jedi', 'obligations')
    assumptions = (
        'a corpus of 12 two-line programs (definition statement, then a use); the names handed to inline are the real '
        'tokens; reference: ast.Assign with exactly one ast.Name target, or ast.AnnAssign with a value',
    )

    def scenario(self, ctx, cfg):
        i = ctx.choice('program', len(INLINE_CORPUS))
        ctx.int('unused')
        src = INLINE_CORPUS[i]
        module = _jedi.Script(src)._module_node
        leaves = [l for l in module.get_used_names()['a']]
        names = [NameStub(l) for l in leaves]
        st = _ast.parse(src).body[0]
        if isinstance(st, _ast.Assign):
            acceptable = len(st.targets) == 1 and isinstance(st.targets[0], _ast.Name)
        else:
            acceptable = isinstance(st, _ast.AnnAssign) and st.value is not None
        out = ctx.call(R.inline, None, names)
        if acceptable:
            ctx.check(out.exc is None, 'a plain single-target assignment is accepted')
        else:
            ctx.check(out.raised(RefactoringError), 'anything else is refused with RefactoringError: inlining would drop a store or is meaningless')


EXTRACT_CORPUS = [
    # pure code: the observable behaviour is the final value of `result`
    "def f(a, b):\n    c = (a + b) * 2\n    d = [a, b][0] - c\n    return c if d else -d\n\nresult = f(1, 2) + f(3, 4)\n",
    "x = 5\ny = {'k': x}['k'] ** 2\nresult = (x, -y + 1, not x or y)\n",
    "a = 2\nb = 3\nc = 0\nr1 = a and b or c\nr2 = a if b else c\nr3 = (not a, a in (b, a))\nr4 = a < b <= c\n"
    "r5 = -a ** 2 + a * b\nr6 = a - b - c\nresult = (r1, r2, r3, r4, r5, r6)\n",
    "def g(p, q=1, *r, **s):\n    return (p, q, r, sorted(s))\nd = {'k': [1, 2, 3]}\nr1 = g(1, q=2)\nr2 = g(*d['k'])\n"
    "r3 = d['k'][1:][0]\nr4 = d.get('k')[0]\nr5 = [i * 2 for i in d['k'] if i]\nr6 = (lambda z: z + 1)(2)\n"
    "result = (r1, r2, r3, r4, r5, r6)\n",
]


def selection_regions(nodes):
    """which recorded defect region (if any) a normalised selection falls into - decided from the selected nodes only"""
    last = nodes[-1]
    ends_on_operator = X._is_not_extractable_syntax(last)
    n0 = nodes[0]
    not_an_expression = False
    if len(nodes) == 1 and n0.type == 'name':
        par = n0.parent
        if par.type == 'argument' and par.children[0] is n0 and len(par.children) > 1 and par.children[1] == '=':
            not_an_expression = True
        if par.type == 'trailer' and par.children[0] == '.':
            not_an_expression = True
    # names bound inside the statement itself (comprehension variables, lambda parameters)
    inner_bound = False
    stmt = n0
    while stmt.parent is not None and stmt.parent.type not in ('suite', 'file_input'):
        stmt = stmt.parent
    bound = set()
    todo = [stmt]
    while todo:
        n = todo.pop()
        if n.type in ('sync_comp_for', 'comp_for'):
            target = n.children[1]
            bound.update(l.value for l in ([target] if target.type == 'name' else _leaves(target)) if l.type == 'name')
        if n.type == 'lambdef':
            for ch in n.children[1:]:
                if ch == ':':
                    break
                bound.update(l.value for l in _leaves(ch) if l.type == 'name')
        todo.extend(getattr(n, 'children', []))
    for node in nodes:
        for l in _leaves(node):
            if l.type == 'name' and l.value in bound:
                inner_bound = True
    return ends_on_operator, not_an_expression, inner_bound


def _leaves(node):
    if not hasattr(node, 'children'):
        return [node]
    out = []
    for ch in node.children:
        out.extend(_leaves(ch))
    return out


def run_result(code):
    ns = {}
    exec(compile(code, '<program>', 'exec'), ns)
    return ns.get('result', '<no result>')


def judge_program(original, new_code):
    """('ok', None) iff new_code compiles and computes the same `result` as the original"""
    try:
        compile(new_code, '<refactored>', 'exec')
    except SyntaxError as e:
        return ('does-not-compile', str(e))
    want = run_result(original)
    try:
        got = run_result(new_code)
    except Exception as e:
        return ('fails-at-run-time', type(e).__name__)
    return ('ok', None) if got == want else ('different-result', (want, got))


_PROJECT = []


def _script_for(i):
    """a fresh Script per path (an inference state must not carry memo entries from another symbolic path); only the
    project object, which holds no per-query state, is shared so that no project discovery touches the disk"""
    if not _PROJECT:
        _PROJECT.append(_jedi.Project('/virtual'))
    # one path per corpus file: parso's incremental-parser cache and jedi's derived caches are keyed on the path
    return _jedi.Script(EXTRACT_CORPUS[i], path='/virtual/extract%d.py' % i, project=_PROJECT[0])


class C06c(Obligation):
    id = 'C06.c'
    title = 'extract_variable over EVERY selection of a program: refused with RefactoringError, or the result compiles and computes the same'
    pattern = 'P4 concrete tree x symbolic selection (start and end are unconstrained integers inside the text); oracle: compile + run both programs'
    interpret_modules = ('jedi.api', 'parso', 'obligations')
    loop_bound = 600
    max_paths = 20000
    assumptions = (
        'corpus of side-effect-free programs parsed natively; the selection (line, column)..(until_line, until_column) is '
        'symbolic within the text (start <= end, the end on the same or the next line), or only a cursor is given (no end); the selection normalisation '
        '(_find_nodes, _remove_unwanted_expression_nodes, parso.get_leaf_for_position) is interpreted, so the solver '
        'partitions the selection space into the regions the code distinguishes; per region the refactoring is built and '
        'both programs are compiled and executed (CPython trusted)',
    )
    findings = {
        'C06-extract-ends-on-operator': 'a range that ends directly behind a binary operator of a chain (a - b -| c) extracts text ending in the operator',
        'C06-extract-not-an-expression': 'a keyword-argument name (g(q=2)) or an attribute name (d.get) is extracted as if it were a variable',
        'C06-extract-inner-binding': 'an expression using a comprehension variable or lambda parameter is moved out of the scope that binds it',
    }

    def configs(self, tier):
        # with an end: one job per start line and band of start columns (the selection may run on into the next line)
        def bands(i, l):
            width = len(EXTRACT_CORPUS[i].split('\n')[l - 1]) + 1
            step = 6
            return [dict(file=i, end=True, line=l, lo=lo, hi=min(lo + step, width)) for lo in range(0, width, step)]
        if tier == 'quick':
            return [dict(file=0, end=False, line=None), dict(file=1, end=False, line=None)] + \
                bands(0, 3) + bands(0, 6) + bands(1, 3)
        out = []
        for i in range(len(EXTRACT_CORPUS)):
            n_lines = EXTRACT_CORPUS[i].count('\n')
            out.append(dict(file=i, end=False, line=None))
            for l in range(1, n_lines + 1):
                out.extend(bands(i, l))
        return out

    def scenario(self, ctx, cfg):
        src = EXTRACT_CORPUS[cfg['file']]
        script = _script_for(cfg['file'])
        lines = src.split('\n')
        K = len(lines) - 1
        line = ctx.int('line', 1, K)
        if cfg['line'] is not None:
            ctx.assume(line == cfg['line'])
        column = ctx.int('column', 0)
        ctx.assume(column <= len(lines[line - 1]))
        if cfg.get('lo') is not None:
            ctx.assume(ctx.And(column >= cfg['lo'], column < cfg['hi']))
        until = None
        if cfg['end']:
            until_line = ctx.int('until_line', 1, K)
            ctx.assume(until_line <= line + 1)
            until_column = ctx.int('until_column', 0)
            ctx.assume(until_column <= len(lines[until_line - 1]))
            ctx.assume(ctx.Or(until_line > line, ctx.And(until_line == line, until_column >= column)))
            until = (until_line, until_column)
        out = ctx.call(X.extract_variable, script._inference_state, script.path, script._module_node, 'nv', (line, column), until)
        if out.exc is not None:
            ctx.check(out.raised(RefactoringError), 'a selection that cannot be extracted is refused with RefactoringError, nothing else')
            return
        new_code = out.value.get_changed_files()[script.path].get_new_code()
        verdict = judge_program(src, new_code)
        ctx.observe((verdict[0], new_code), 'result')
        nodes = ctx.run(X._find_nodes, script._module_node, (line, column), until)
        ends_on_operator, not_an_expression, inner_bound = selection_regions(nodes)
        ctx.check(verdict[0] != 'does-not-compile', 'the refactored program compiles',
                  known={'C06-extract-ends-on-operator': ends_on_operator})
        ctx.check(verdict[0] in ('ok', 'does-not-compile'), 'and computes the same result',
                  known={'C06-extract-not-an-expression': not_an_expression, 'C06-extract-inner-binding': inner_bound})


class C06e(C06c):
    id = 'C06.e'
    title = 'extract_function over EVERY selection: only RefactoringError escapes; for a selection that is an expression the result compiles and computes the same'
    findings = dict(C06c.findings)
    findings['C06-extract-function-statement-range'] = 'ranges over statements that do not coincide with whole statements yield code that does not compile or fails'

    def configs(self, tier):
        base = C06c.configs(self, tier)
        if tier == 'quick':
            return [c for c in base if not c['end'] or (c['file'] == 0 and c['line'] == 6)]
        # thorough: every cursor of every program; ranges on the expression-rich lines (the native inference that
        # extract_function needs per path makes the full range space of all four programs a multi-hour run)
        # program 3 (keyword arguments, comprehension, lambda): cursor-only here, its ranges are decided for
        # extract_variable by C06.c; with ranges extract_function showed an unresolved divergence between the two
        # execution modes (KeyError in interpreted mode only, and only when jobs share a worker process) - see DESIGN 9.9
        lines = {0: (2, 3, 4, 6), 1: (2, 3), 2: (4, 7, 9), 3: ()}
        return [c for c in base if not c['end'] or c['line'] in lines[c['file']]]

    def scenario(self, ctx, cfg):
        src = EXTRACT_CORPUS[cfg['file']]
        script = _script_for(cfg['file'])
        lines = src.split('\n')
        K = len(lines) - 1
        line = ctx.int('line', 1, K)
        if cfg['line'] is not None:
            ctx.assume(line == cfg['line'])
        column = ctx.int('column', 0)
        ctx.assume(column <= len(lines[line - 1]))
        if cfg.get('lo') is not None:
            ctx.assume(ctx.And(column >= cfg['lo'], column < cfg['hi']))
        until = None
        if cfg['end']:
            until_line = ctx.int('until_line', 1, K)
            ctx.assume(until_line <= line + 1)
            until_column = ctx.int('until_column', 0)
            ctx.assume(until_column <= len(lines[until_line - 1]))
            ctx.assume(ctx.Or(until_line > line, ctx.And(until_line == line, until_column >= column)))
            until = (until_line, until_column)
        out = ctx.call(X.extract_function, script._inference_state, script.path, script._get_module_context(), 'nv',
                       (line, column), until)
        if out.exc is not None:
            ctx.check(out.raised(RefactoringError), 'a selection that cannot be extracted is refused with RefactoringError, nothing else')
            return
        new_code = out.value.get_changed_files()[script.path].get_new_code()
        verdict = judge_program(src, new_code)
        ctx.observe((verdict[0], new_code), 'result')
        nodes = ctx.run(X._find_nodes, script._module_node, (line, column), until)
        statements = not X._is_expression_with_error(nodes)[0]
        ends_on_operator, not_an_expression, inner_bound = selection_regions(nodes)
        ctx.check(verdict[0] != 'does-not-compile', 'the refactored program compiles',
                  known={'C06-extract-ends-on-operator': ends_on_operator, 'C06-extract-not-an-expression': not_an_expression,
                         'C06-extract-function-statement-range': statements})
        ctx.check(verdict[0] in ('ok', 'does-not-compile'), 'and computes the same result',
                  known={'C06-extract-not-an-expression': not_an_expression, 'C06-extract-inner-binding': inner_bound,
                         'C06-extract-function-statement-range': statements})


INLINE_PROGRAMS = [
    "a = 3\nb = a + 1; c = b * a\ndef f(x):\n    y = x - 1\n    z = y * 2; w = z\n    if x:\n        t = 5\n    return w + y\nresult = (c, f(a), -b)\n",
    "x = 1 if True else 2\ny = lambda q: q + x\nk = x, 2\nn = [x, *k]\nresult = (y(1), k, n, x ** 2, not x)\n",
    "g = 10\ndef h():\n    global g\n    v = g + 1\n    return v\nclass K:\n    attr = g\n    other = attr * 2\nresult = (h(), K.other, g)\n",
]


def inline_regions(module, leaf):
    """recorded defect regions of inline, decided from the tokens spelled like the name under the cursor"""
    if leaf is None or leaf.type != 'name':
        return False, False, False
    names = module.get_used_names().get(leaf.value, [])
    semicolon = declared = class_attribute = False
    for n in names:
        if n.parent.type in ('global_stmt', 'nonlocal_stmt'):
            declared = True
        if n.is_definition():
            stmt = n.get_definition()
            if stmt is not None and stmt.parent is not None and stmt.parent.type == 'simple_stmt' \
                    and any(ch == ';' for ch in stmt.parent.children):
                semicolon = True
            scope = stmt
            while scope is not None and scope.type not in ('classdef', 'funcdef', 'file_input'):
                scope = scope.parent
            if scope is not None and scope.type == 'classdef':
                class_attribute = True
    return semicolon, declared, class_attribute


class C06j(Obligation):
    id = 'C06.j'
    title = 'inline at EVERY cursor position of a program: refused with RefactoringError, or the result compiles and computes the same'
    pattern = 'P4 concrete tree x symbolic cursor; oracle: compile + run both programs'
    interpret_modules = ('jedi.api', 'parso', 'obligations')
    loop_bound = 600
    max_paths = 6000
    assumptions = (
        'three side-effect-free programs (several statements per line, conditional expressions, lambdas, star '
        'expressions, a global declaration, class attributes); (line, column) symbolic inside the text; the token lookup '
        '(parso get_name_of_position) and jedi.api (inline, its preconditions and text assembly) are interpreted, the '
        'reference search (jedi.inference) runs natively on the concrete token; project directory empty',
    )
    findings = {
        'C06-inline-semicolon': 'the definition shares its line with other statements (a = 1; b = a)',
        'C06-inline-class-attribute': 'the definition is a class attribute (references through the class are replaced by the bare expression)',
    }

    def configs(self, tier):
        return [dict(file=i) for i in range(len(INLINE_PROGRAMS))]

    def scenario(self, ctx, cfg):
        src = INLINE_PROGRAMS[cfg['file']]
        if not _PROJECT:
            _PROJECT.append(_jedi.Project('/virtual'))
        script = _jedi.Script(src, path='/virtual/inline%d.py' % cfg['file'], project=_PROJECT[0])
        lines = src.split('\n')
        K = len(lines) - 1
        line = ctx.int('line', 1, K)
        column = ctx.int('column', 0)
        ctx.assume(column <= len(lines[line - 1]))
        raw = _jedi.Script.inline
        ctx.force(raw, getattr(raw, '__wrapped__', raw))
        out = ctx.call(script.inline, line, column)
        if out.exc is not None:
            ctx.check(out.raised(RefactoringError), 'what cannot be inlined is refused with RefactoringError, nothing else')
            return
        new_code = out.value.get_changed_files()[script.path].get_new_code()
        verdict = judge_program(src, new_code)
        ctx.observe((verdict[0], new_code), 'result')
        leaf = ctx.run(script._module_node.get_name_of_position, (line, column))
        semicolon, declared, class_attribute = inline_regions(script._module_node, leaf)
        ctx.check(verdict[0] != 'does-not-compile', 'the refactored program compiles',
                  known={'C06-inline-semicolon': semicolon})
        ctx.check(verdict[0] in ('ok', 'does-not-compile'), 'and computes the same result',
                  known={'C06-inline-class-attribute': class_attribute})


OBLIGATIONS = [C06a, C06b, C06d, C06f, C06g, C06h, C06i, C06c, C06e, C06j]
