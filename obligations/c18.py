"""C18 - get_context, parent() and full_name describe the lexical nesting."""
import ast
import io
import tokenize

from vf.ob import Obligation, Obj

import jedi
from jedi.api import classes

CORPUS = [
    # 0: nested class / def / async def / lambda / comprehension / decorator / multi-line header
    '''import os

class A(Base):
    x = 1

    def f(self, a=1,
          b=2):
        y = [i for i in a]
        def g():
            return lambda q: q
        return g

    @deco(arg)
    async def h(self): pass

def top(z):
    # comment
    return z


v = top(1)
''',
    # 1: one-line suites, nested classes
    '''class Outer:
    class Cfg: depth = 3; label = "x"

    def get(self): val = self.Cfg.depth; return val

def solo(): return 1
result = solo()
''',
    # 2: deeper nesting and code after dedent
    '''def outer(p):
    def middle(q):
        def inner(r):
            return p + q + r
        return inner
    k = middle(1)
    return k

class K:
    def m(self):
        class L:
            attr = 2
        return L
tail = K
''',
    # 3: decorators with arguments, defaults, annotations
    '''import functools

def deco(n):
    return lambda f: f

@deco(3)
def annotated(a: int = 5, *args: str, **kw) -> int:
    value = a
    return value

@functools.wraps(annotated)
class Wrapped(object):
    field: int = 0
''',
    # 4: async functions whose bodies are indented less than the `def` keyword is
    '''class A:
    async def h(self):
        val = 1
        return val

    @deco
    async def d(self):
        w = [x async for x in self]

async def top():
    x = 2
    return x
''',
]


def scopes_and_tokens(src):
    """(tokens, expected): code tokens as (line, c0, c1) and, per token, the (name, type) of the innermost
    def/class whose BODY contains it (('', 'module') otherwise), plus whether it lies in a def/class header"""
    tree = ast.parse(src)
    bodies = []     # (start, end, name, kind, depth, header_start)

    def visit(node, depth):
        for ch in ast.iter_child_nodes(node):
            if isinstance(ch, (ast.FunctionDef, ast.AsyncFunctionDef, ast.ClassDef)):
                first, last = ch.body[0], ch.body[-1]
                start = (first.lineno, first.col_offset)
                end = (last.end_lineno, last.end_col_offset)
                hs = min([(d.lineno, d.col_offset) for d in ch.decorator_list] + [(ch.lineno, ch.col_offset)])
                kind = 'class' if isinstance(ch, ast.ClassDef) else 'function'
                bodies.append((start, end, ch.name, kind, depth, hs))
                visit(ch, depth + 1)
            else:
                visit(ch, depth)
    visit(tree, 0)
    toks = []
    for t in tokenize.generate_tokens(io.StringIO(src).readline):
        if t.type in (tokenize.NAME, tokenize.OP, tokenize.NUMBER, tokenize.STRING) and t.start[0] == t.end[0]:
            pos = t.start
            best = None
            in_header = False
            for start, end, name, kind, depth, hs in bodies:
                if start <= pos < end:
                    if best is None or depth > best[2]:
                        best = (name, kind, depth)
                if hs <= pos < start:
                    in_header = True
            exp = (best[0], best[1]) if best else ('', 'module')
            toks.append(((t.start[0], t.start[1], t.end[1]), exp, in_header))
    return toks


class C18a(Obligation):
    id = 'C18.a'
    title = 'get_context == innermost def/class whose BODY contains the position, for every position on a code token'
    pattern = 'P4 concrete tree x symbolic cursor (unbounded integers), reference from CPython ast/tokenize'
    interpret_modules = ('jedi', 'parso', 'obligations')
    loop_bound = 400
    assumptions = (
        'a corpus of syntactically valid files is parsed natively by parso; (line, column) are unconstrained integers; '
        'the interpreter forks on every comparison the API layer and parso.get_leaf_for_position make, everything '
        'reached with concrete arguments (context creation, parent(), Name.type) runs natively',
        'domain of the claim: positions inside a single-line NAME/OP/NUMBER/STRING token (whitespace, comments and '
        'blank lines are outside the statement); reference scopes from ast, tokens from tokenize (CPython trusted)',
    )
    findings = {'C18-header': 'position inside the header of a def/class (jedi answers the definition itself)'}
    max_paths = 4000

    def configs(self, tier):
        files = (0, 1, 4) if tier == 'quick' else range(len(CORPUS))
        return [dict(file=i) for i in files]

    def scenario(self, ctx, cfg):
        src = CORPUS[cfg['file']]
        script = jedi.Script(src)
        line = ctx.int('line')
        column = ctx.int('column')
        ctx.force(jedi.Script.get_context, jedi.Script.get_context.__wrapped__)
        out = ctx.call(script.get_context, line, column)
        nlines = len(src.splitlines())
        ctx.check(ctx.Or(out.exc is None, out.raised(ValueError)), 'only ValueError may escape')
        if out.exc is not None:
            on_any = ctx.Or(*[ctx.And(line == l, c0 <= column, column < c1)
                              for (l, c0, c1), exp, hdr in scopes_and_tokens(src)])
            ctx.check(ctx.Not(on_any), 'no position on a code token is rejected')
            return
        d = out.value
        got = ('', 'module') if d.type == 'module' else (d.name, d.type)
        ctx.observe(got, 'context')
        wrong_body = []
        wrong_header = []
        for (l, c0, c1), exp, hdr in scopes_and_tokens(src):
            if exp != got:
                here = ctx.And(line == l, c0 <= column, column < c1)
                (wrong_header if hdr else wrong_body).append(here)
        ctx.check(ctx.Not(ctx.Or(*wrong_body)) if wrong_body else True,
                  'body positions: the innermost enclosing def/class (module otherwise)')
        ctx.check(ctx.Not(ctx.Or(*wrong_header)) if wrong_header else True,
                  'header positions (decorators, name, parameters, bases) belong to the enclosing scope',
                  known={'C18-header': ctx.Or(*wrong_header) if wrong_header else False})


class QName:
    _pysym_holder = True
    is_value_name = True

    def __init__(self, names):
        self._names = names

    def get_qualified_names(self, include_module_names=False):
        return self._names


class C18b(Obligation):
    id = 'C18.b'
    title = 'full_name == dotted join of the qualified names, only the leading module component is aliased'
    pattern = 'P1'
    assumptions = ('the qualified names (module path + __qualname__ parts) are <=3 symbolic strings',)

    def configs(self, tier):
        return [dict(n=n) for n in (1, 2, 3)]

    def scenario(self, ctx, cfg):
        parts = [ctx.str('part%d' % i, maxlen=12) for i in range(cfg['n'])]
        n = classes.BaseName.__new__(classes.BaseName)
        n._pysym_holder = True
        n._name = QName(tuple(parts))
        out = ctx.call(classes.BaseName.full_name.fget, n)
        ctx.check(out.exc is None, 'never raises')
        if out.exc is not None:
            return
        first = parts[0]
        for k, v in classes.BaseName._mapping.items():
            first = ctx.ite(parts[0] == k, v, first)
        expected = first
        for p in parts[1:]:
            expected = expected + '.' + p
        ctx.check(out.value == expected, 'module alias applied to the first component only')
        none = classes.BaseName.__new__(classes.BaseName)
        none._name = QName(None)
        ctx.check(ctx.run(classes.BaseName.full_name.fget, none) is None, 'no qualified names => None')


class Cx:
    def __init__(self, name, parent):
        self.name = name
        self.parent_context = parent


class C18c(Obligation):
    id = 'C18.c'
    title = 'parent(): anonymous (comprehension) scopes are skipped however deeply nested; the answer always has a name'
    pattern = 'P3 (context chain with a symbolic number of anonymous levels)'
    assumptions = ('the context chain above a name has 0..3 anonymous comprehension contexts (symbolic) below a named scope',)

    def scenario(self, ctx, cfg):
        depth = ctx.choice('anonymous_levels', 4)
        ctx.int('unused')
        named = Cx(Obj(tag='enclosing-function-name'), None)
        c = named
        for i in range(depth):
            c = Cx(None, c)
        n = classes.BaseName.__new__(classes.BaseName)
        n._pysym_holder = True
        n._inference_state = None
        n._name = Obj(is_value_name=True, tree_name=None, parent_context=c, api_type='statement')
        n.is_keyword = False
        ctx.patch(classes.BaseName, 'type', 'statement')
        ctx.force(classes.BaseName.parent)
        out = ctx.call(classes.BaseName.parent, n)
        ctx.check(out.exc is None, 'never raises')
        if out.exc is None:
            ctx.check(out.value is not None and out.value._name is named.name,
                      'the parent is the nearest NAMED enclosing scope')


from obligations.scopes import SCOPE_CORPUS, definition_parents  # noqa: E402


class C18d(Obligation):
    id = 'C18.d'
    title = 'parent() of a definition is its lexically enclosing def/class (a parameter\'s parent is its function), for every definition'
    pattern = 'P4 concrete tree x symbolic cursor; reference from CPython ast'
    interpret_modules = ('jedi', 'parso', 'obligations')
    loop_bound = 400
    max_paths = 6000
    assumptions = (
        'corpus file with nested classes/functions, star and annotated parameters; the cursor is symbolic and resolved by the '
        'interpreted get_leaf_for_position; domain: def/class names, parameters of def, plain assignment targets; the Name is '
        'built by ModuleContext.create_name and parent()/type run natively on the concrete token',
    )

    def scenario(self, ctx, cfg):
        src = SCOPE_CORPUS[0]
        script = jedi.Script(src)
        defs = definition_parents(src)
        line = ctx.int('line')
        column = ctx.int('column')
        ctx.assume(ctx.Or(*[ctx.And(line == l, c < column, column <= c + 1) for (l, c) in defs]))
        leaf = ctx.run(script._module_node.get_leaf_for_position, (line, column))
        if leaf is None or leaf.start_pos not in defs:
            ctx.check(False, 'the position resolves to the definition token')
            return
        name, parent_label = defs[leaf.start_pos]
        n = classes.Name(script._inference_state, script._get_module_context().create_name(leaf))
        out = ctx.call(n.parent)
        ctx.check(out.exc is None and out.value is not None, 'parent() never raises')
        if out.exc is not None or out.value is None:
            return
        p = out.value
        got = 'module' if p.type == 'module' else ('class:' if p.type == 'class' else 'function:') + p.name
        ctx.observe((name, leaf.start_pos, got), 'parent')
        ctx.check(got == parent_label, 'parent() is the lexically enclosing definition')
        ctx.check((n.line, n.column) == leaf.start_pos and n.name == leaf.value,
                  'the reported position is where the text is exactly the name')


import pathlib  # noqa: E402

import jedi.api as japi  # noqa: E402


class C18e(Obligation):
    id = 'C18.e'
    title = 'the module part of full_name is the dotted path of the file below the import root, also through directories without __init__.py (implicit namespace packages)'
    pattern = 'P3 (Script._get_module with the real transform_path_to_dotted; the effective sys.path is a stub that honours add_parent_paths)'
    assumptions = (
        'the buffer lies d<=3 directories below the project root /proj (root on sys.path); each directory may lack '
        '__init__.py (symbolic): the stubbed get_sys_path then appends that directory when asked to add parent paths, as '
        'Project._get_sys_path does; ModuleValue and KnownContentFileIO are recording stubs',
    )

    def configs(self, tier):
        return [dict(depth=d) for d in (0, 1, 2, 3)]

    def scenario(self, ctx, cfg):
        depth = cfg['depth']
        dirs = ['pk%d' % i for i in range(depth)]
        has_init = [ctx.flag('dir%d_has_init' % i) for i in range(depth)]
        ctx.int('unused')
        path = pathlib.Path('/proj/' + '/'.join(dirs + ['mod.py']))

        def get_sys_path(add_parent_paths=True, add_init_paths=False):
            sp = ['/usr/lib/python', '/proj']
            if add_parent_paths:
                # walk up from the buffer while the directory has no __init__.py (what _get_sys_path appends)
                cur = []
                for i in range(depth - 1, -1, -1):
                    if has_init[i]:
                        break
                    cur.append('/proj/' + '/'.join(dirs[:i + 1]))
                sp += cur
            return sp
        made = []
        ctx.patch(japi, 'ModuleValue', lambda state, node, **kw: made.append(kw) or 'MODULE')
        ctx.patch(japi, 'KnownContentFileIO', lambda p, code: ('file', p))
        script = jedi.Script.__new__(jedi.Script)
        script._pysym_holder = True
        script.path = path
        script._code = ''
        script._module_node = None
        script._code_lines = []
        script._inference_state = Obj(get_sys_path=get_sys_path, module_cache=Obj(add=lambda names, v: None))
        ctx.force(jedi.Script._get_module)
        out = ctx.call(script._get_module)
        ctx.check(out.exc is None and len(made) == 1, 'never raises')
        if out.exc is None and len(made) == 1:
            ctx.check(tuple(made[0]['string_names']) == tuple(dirs + ['mod']),
                      'the module is named by its full dotted path below the root, whether or not the directories have __init__.py')


OBLIGATIONS = [C18a, C18b, C18c, C18d, C18e]
