"""C20 - Project settings round-trip and shape sys.path as documented."""
import builtins
import json
import pathlib
import types

from vf.ob import Obligation, Obj
from pysym import models

from jedi.api import project as jproject
from jedi.api.project import Project


def raw(method):
    """the function wrapped by jedi's memoising decorators"""
    f = method
    while getattr(f, '__closure__', None):
        inner = [c.cell_contents for c in f.__closure__
                 if isinstance(c.cell_contents, types.FunctionType)]
        if not inner:
            break
        f = inner[0]
    return f


def jsonable(v):
    """what json.dump accepts (tuples become lists); anything else: TypeError, as in CPython"""
    if v is None or isinstance(v, (bool, int, str)) or models.is_strlike(v) or models.is_intlike(v):
        return v
    if isinstance(v, (list, tuple)):
        return [jsonable(x) for x in v]
    if isinstance(v, dict):
        out = {}
        for k, x in v.items():
            if not isinstance(k, str):
                raise TypeError('keys must be str')
            out[k] = jsonable(x)
        return out
    raise TypeError('Object of type %s is not JSON serializable' % type(v).__name__)


class FakeFile:
    def __init__(self, cell, path, mode):
        self.cell, self.path, self.mode = cell, path, mode

    def __enter__(self):
        return self

    def __exit__(self, *a):
        return False


class C20a(Obligation):
    id = 'C20.a'
    title = 'save() then load() yields the same path and settings'
    pattern = 'P1 round trip; file system = one cell, json = identity on JSON values (TypeError otherwise)'
    assumptions = (
        'json.dump/json.load are modelled as identity on JSON-able values (tuples become lists) and TypeError on '
        'anything else, as in CPython; open()/mkdir are stubs (one file cell)',
        'sys_path: None or <=2 entries, added_sys_path <=2 entries, each a str or a Path; environment_path: None, str or Path',
    )
    findings = {'C20-envpath-Path': 'environment_path given as a pathlib.Path'}

    def configs(self, tier):
        out = []
        for env_kind in ('none', 'str', 'path'):
            for ns in ((None, 0, 2) if tier == 'quick' else (None, 0, 1, 2, 3)):
                out.append(dict(env=env_kind, n_sys=ns, n_added=1 if tier == 'quick' else 2))
        return out

    def scenario(self, ctx, cfg):
        cell = []

        real_open = builtins.open

        def fake_open(path, mode='r', *a, **kw):
            if str(path).endswith('project.json'):
                return FakeFile(cell, path, mode)
            return real_open(path, mode, *a, **kw)

        def dump(obj, f):
            del cell[:]
            cell.append(jsonable(obj))

        def load(f):
            return cell[0]

        ctx.patch(builtins, 'open', fake_open)
        ctx.patch(json, 'dump', dump)
        ctx.patch(json, 'load', load)
        ctx.patch(pathlib.Path, 'mkdir', lambda self, **kw: None)
        ctx.force(Project.load)

        def entry(name):
            s = ctx.str(name, maxlen=6)
            if ctx.flag(name + '_is_path'):
                # a Path value: normalised, so compare through str()
                ctx.assume(s == '/abs')
                return pathlib.Path('/abs'), '/abs'
            return s, s

        env = None
        env_expect = None
        if cfg['env'] == 'str':
            env = env_expect = ctx.str('environment_path', maxlen=6)
        elif cfg['env'] == 'path':
            env = pathlib.Path('/venv')
            env_expect = '/venv'
        sys_path = expect_sys = None
        if cfg['n_sys'] is not None:
            pairs = [entry('sys%d' % i) for i in range(cfg['n_sys'])]
            sys_path = [p[0] for p in pairs]
            expect_sys = [p[1] for p in pairs]
        pairs = [entry('added%d' % i) for i in range(cfg['n_added'])]
        added = [p[0] for p in pairs]
        expect_added = [p[1] for p in pairs]
        smart = ctx.bool('smart_sys_path')
        unsafe = ctx.bool('load_unsafe_extensions')
        out0 = ctx.call(Project, '/proj', environment_path=env, sys_path=sys_path,
                        added_sys_path=added, smart_sys_path=smart, load_unsafe_extensions=unsafe)
        ctx.check(out0.exc is None, 'Project() accepts str and Path settings')
        if out0.exc is not None:
            return
        proj = out0.value
        known = {'C20-envpath-Path': cfg['env'] == 'path'}
        out = ctx.call(proj.save)
        ctx.check(out.exc is None, 'save() succeeds for every documented setting value', known=known)
        if out.exc is not None:
            return
        out2 = ctx.call(Project.load, '/proj')
        ctx.check(out2.exc is None, 'load() succeeds on what save() wrote')
        if out2.exc is not None:
            return
        p2 = out2.value
        ctx.check(str(p2.path) == '/proj', 'same path')
        ctx.check(ctx.eq(p2.sys_path, expect_sys) if expect_sys is not None else p2.sys_path is None, 'same sys_path')
        ctx.check(ctx.eq(list(p2.added_sys_path), expect_added), 'same added_sys_path')
        ctx.check(ctx.And(ctx.iff(p2.smart_sys_path, smart), ctx.iff(p2.load_unsafe_extensions, unsafe)),
                  'same smart_sys_path and load_unsafe_extensions')
        e2 = p2._environment_path
        if env_expect is None:
            ctx.check(e2 is None, 'same environment_path (None)')
        else:
            ctx.check(e2 is not None and ctx.eq(str(e2) if not models.is_strlike(e2) else e2, env_expect),
                      'same environment_path')
        ctx.check(sorted(cell[0][1].keys()) == ['added_sys_path', 'environment_path', 'load_unsafe_extensions',
                                                'path', 'smart_sys_path', 'sys_path'],
                  'exactly the constructor settings are serialised')


class C20b(Obligation):
    id = 'C20.b'
    title = 'effective sys.path: no duplicates, project first when smart, given order kept, added, then inner ancestors'
    pattern = 'P1 kernel vs reference model'
    sym_containers = True
    assumptions = (
        'the environment/explicit/added entries are arbitrary strings (<=2/2/2), the environment path contains at most one ""',
        'project path and script path are component lists; the script is at depth<=3 below the project, outside it, or in a sibling directory whose name extends the project name; '
        'presence of __init__.py per ancestor is a symbolic boolean (file-system stub); buildout discovery returns nothing',
    )

    def configs(self, tier):
        out = []
        depths = (0, 1, 2, 3) if tier == 'quick' else (0, 1, 2, 3, 4)
        for where in ('inside', 'outside', 'sibling', 'nopath'):
            for d in (depths if where == 'inside' else (1,)):
                for explicit in (False, True):
                    out.append(dict(where=where, depth=d, explicit=explicit, n=2, n_added=1 if tier == 'quick' else 2))
        return out

    def scenario(self, ctx, cfg):
        proj_comps = ['home', 'proj']
        project_path = ctx.path(proj_comps)
        has_init = {}

        def fs(kind, parts):
            # parts: components of the path asked about; only __init__.py below a script ancestor matters
            key = tuple(parts[:-1])
            return has_init.get(key, False)

        if ctx.symbolic:
            models.SymPath.fs_hook = staticmethod(lambda kind, p: fs(kind, p.parts_))
        else:
            ctx.patch(pathlib.Path, 'is_file', lambda self: fs('is_file', list(self.parts[1:])))
        ctx.patch(jproject, 'discover_buildout_paths', lambda state, path: [])

        script_path = None
        inner = []          # ancestor dirs strictly inside the project, outermost first
        if cfg['where'] == 'inside':
            subs = ['s%d' % i for i in range(cfg['depth'])]
            script_path = ctx.path(proj_comps + subs + ['mod.py'])
            for i in range(1, cfg['depth'] + 1):
                d = proj_comps + subs[:i]
                has_init[tuple(d)] = ctx.bool('init_in_%d' % i)
                inner.append(d)
        elif cfg['where'] == 'outside':
            script_path = ctx.path(['home', 'other', 'mod.py'])
        elif cfg['where'] == 'sibling':
            # a directory NEXT TO the project whose name merely starts with the project's name
            tail = ctx.str('sibling_tail', exclude='/\n\0')
            ctx.assume(ctx.len(tail) > 0)
            script_path = ctx.path(['home', 'proj' + tail, 'unit', 'mod.py'])
        smart = ctx.flag('smart_sys_path')
        n = cfg['n']
        base = [ctx.str('env%d' % i, maxlen=4) for i in range(n)]
        for i in range(1, n):
            ctx.assume(ctx.Not(ctx.And(base[i] == '', *[base[j] == '' for j in range(i) if True][:1])))
        explicit = [ctx.str('given%d' % i, maxlen=4) for i in range(n)] if cfg['explicit'] else None
        added = [ctx.str('added%d' % i, maxlen=4) for i in range(cfg['n_added'])]

        proj = Project.__new__(Project)
        proj._pysym_holder = True
        proj._path = project_path
        proj._sys_path = explicit
        proj._smart_sys_path = smart
        proj._django = False
        proj.added_sys_path = added
        state = Obj(environment=Obj(get_sys_path=lambda: list(base)), script_path=script_path)
        cached_base = [b for k, b in enumerate(base) if not _first_empty(ctx, base, k)]      # memoised in jedi: one list object
        cached_before = list(cached_base)
        proj._get_base_sys_path = lambda st: cached_base
        added_before = list(added)
        explicit_before = list(explicit) if explicit is not None else None
        out = ctx.call(raw(Project._get_sys_path), proj, state)
        ctx.check(out.exc is None, 'never raises')
        if out.exc is not None:
            return
        got = out.value
        ctx.check(proj.added_sys_path is added and len(added) == len(added_before)
                  and all(a is b for a, b in zip(added, added_before)),
                  'computing the path does not modify the project settings (added_sys_path)')
        ctx.check(len(cached_base) == len(cached_before) and all(a is b for a, b in zip(cached_base, cached_before)),
                  'the (memoised) environment path, which is also the safe-import whitelist, is not modified')
        if explicit is not None:
            ctx.check(proj._sys_path is explicit and len(explicit) == len(explicit_before),
                      'computing the path does not modify the project settings (sys_path)')

        # ---- reference
        ref = []
        if smart:
            ref.append(ctx.pathstr(project_path))
        if explicit is not None:
            ref += explicit
        else:
            ref += [b for k, b in enumerate(base) if not _first_empty(ctx, base, k)]
        ref += added
        if smart and cfg['where'] == 'inside':
            for d in inner:
                if not has_init[tuple(d)]:
                    ref.append('/' + '/'.join(d))
        dedup = []
        for p in ref:
            if not any(p == q for q in dedup):
                dedup.append(p)
        ctx.check(len(got) == len(dedup), 'same number of entries as the documented composition without duplicates')
        if len(got) == len(dedup):
            ctx.check(ctx.And(*[got[i] == dedup[i] for i in range(len(dedup))]) if dedup else True,
                      'project first (smart), given order kept, then added_sys_path, then inner ancestors outermost first')
        for i in range(len(got)):
            for j in range(i):
                ctx.check(got[i] != got[j], 'no duplicates')


def _first_empty(ctx, base, k):
    """is base[k] the first empty string of the list (the one list.remove('') drops)?"""
    if base[k] != '':
        return False
    for j in range(k):
        if base[j] == '':
            return False
    return True


from obligations.c08 import C08f  # noqa: E402


class C20c(C08f):
    id = 'C20.c'
    title = 'the script location from which the ancestor directories are derived is the ABSOLUTE path of the buffer, however the path was given (see C08.f)'


OBLIGATIONS = [C20a, C20b, C20c]
