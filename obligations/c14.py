"""C14 - A crash of the helper process is contained and recovered from (protocol level)."""
import pickle

from vf.ob import Obligation, Obj

import jedi._compatibility as compat
from jedi.api import environment as jenv
from jedi.api.exceptions import InternalError
from jedi.inference.compiled import subprocess as jsub
from jedi.inference.compiled.subprocess import CompiledSubprocess, InferenceStateSubprocess


class HelperSideError(Exception):
    """what a well-formed error reply carries"""


class Stream:
    def __init__(self, log, name, read_raises=False):
        self.log, self.name, self.read_raises = log, name, read_raises

    def read(self):
        self.log.append(('read', self.name))
        if self.read_raises:
            raise OSError('stderr gone')
        return b'boom'


WRITE_OUTCOMES = ('ok', 'BrokenPipeError')
READ_OUTCOMES = ('reply', 'error_reply', 'EOFError', 'UnpicklingError')


def make_subprocess(ctx, log, crashed, write_outcome, read_outcome, stderr_raises):
    sub = CompiledSubprocess('python-exe')
    sub._pysym_holder = True
    if crashed:
        sub.is_crashed = True
    proc = Obj(stdin=Stream(log, 'stdin'), stdout=Stream(log, 'stdout'),
               stderr=Stream(log, 'stderr', stderr_raises))
    sub._get_process = lambda: proc
    sub._stderr_queue = Obj()
    sub._cleanup_callable = lambda: log.append(('cleanup',))

    def dump(data, file, protocol):
        log.append(('write', data[0], data[1]))
        if write_outcome == 'BrokenPipeError':
            raise BrokenPipeError('broken pipe')

    def load(file):
        log.append(('load',))
        if read_outcome == 'reply':
            return (False, None, 'RESULT')
        if read_outcome == 'error_reply':
            return (True, 'traceback text', HelperSideError('helper side'))
        if read_outcome == 'EOFError':
            raise EOFError('Ran out of input')
        raise pickle.UnpicklingError('pickle data was truncated')

    ctx.patch(jsub, 'pickle_dump', dump)
    ctx.patch(jsub, 'pickle_load', load)
    ctx.patch(jsub, '_add_stderr_to_debug', lambda q: None)
    return sub


class C14a(Obligation):
    id = 'C14.a'
    title = 'one request under a fault schedule: only InternalError escapes, crash flag <=> helper unusable'
    pattern = 'P3 environment = nondeterministic stubs (pipe write / reply read / stderr read outcomes)'
    assumptions = (
        'write outcome in {ok, BrokenPipeError}; reply read outcome in {well-formed reply, well-formed error reply, '
        'EOFError, pickle.UnpicklingError (what CPython raises for a stream cut inside an opcode)}; stderr read may raise',
        'pickle_dump / pickle_load / the process object are stubs; real process death, zombies, fds are not modelled',
    )
    findings = {'C14-unpickling': 'reply truncated inside a pickle opcode (UnpicklingError)'}

    def configs(self, tier):
        return [dict(crashed=c) for c in (False, True)]

    def scenario(self, ctx, cfg):
        log = []
        write_outcome = ctx.oneof('write_outcome', WRITE_OUTCOMES)
        read_outcome = ctx.oneof('read_outcome', READ_OUTCOMES)
        stderr_raises = ctx.flag('stderr_read_raises')
        sub = make_subprocess(ctx, log, cfg['crashed'], write_outcome, read_outcome, stderr_raises)
        out = ctx.call(sub._send, 42, len, ('x',), {})
        known = {'C14-unpickling': read_outcome == 'UnpicklingError' and write_outcome == 'ok'
                 and not cfg['crashed']}
        writes = [e for e in log if e[0] == 'write']
        if cfg['crashed']:
            ctx.check(out.raised(InternalError), 'a crashed helper answers InternalError')
            ctx.check(len(writes) == 0 and ('load',) not in log, 'a crashed helper is never written to or read from')
            return
        helper_dead = write_outcome != 'ok' or read_outcome in ('EOFError', 'UnpicklingError')
        if helper_dead:
            ctx.check(out.raised(InternalError), 'helper death surfaces as InternalError and nothing else', known=known)
            ctx.check(sub.is_crashed is True, 'helper death sets the crash flag', known=known)
            ctx.check(('cleanup',) in log, 'helper death runs the cleanup', known=known)
        elif read_outcome == 'error_reply':
            ctx.check(out.raised(HelperSideError), 'a well-formed error reply re-raises the helper-side exception')
            ctx.check(sub.is_crashed is False, 'an error reply is not a crash')
        else:
            ctx.check(out.exc is None and out.value == 'RESULT', 'a well-formed reply is returned')
            ctx.check(sub.is_crashed is False and ('cleanup',) not in log, 'no crash, no cleanup')
        ctx.check(len(writes) == 1, 'exactly one request is written')
        # the next request on the same object
        out2 = ctx.call(sub._send, 42, len, ('x',), {})
        if helper_dead:
            ctx.check(out2.raised(InternalError), 'after a crash the same helper object keeps answering InternalError',
                      known=known)
            ctx.check(len([e for e in log if e[0] == 'write']) == 1, 'a dead helper is never written to again',
                      known=known)


class FakeSub:
    """stand-in for CompiledSubprocess in Environment._get_subprocess"""
    created = []

    def __init__(self, executable, env_vars=None):
        self.is_crashed = False
        self.executable = executable
        FakeSub.created.append(self)

    def _send(self, inference_state_id, function, args=(), kwargs={}):
        return ('exe', 'prefix', (3, 12, 1))


class C14b(Obligation):
    id = 'C14.b'
    title = 'Environment replaces a crashed helper on next use and reuses a healthy one; queues are per helper'
    pattern = 'P2 one step from each helper state {none, healthy, crashed}'
    assumptions = ('CompiledSubprocess is replaced by a recording stub in Environment._get_subprocess',)

    def configs(self, tier):
        return [dict(state=s) for s in ('none', 'healthy', 'crashed')]

    def scenario(self, ctx, cfg):
        del FakeSub.created[:]
        ctx.patch(jenv, 'CompiledSubprocess', FakeSub)
        env = jenv.Environment.__new__(jenv.Environment)
        env._pysym_holder = True
        env._start_executable = 'python-exe'
        env._env_vars = None
        old = None
        if cfg['state'] != 'none':
            old = FakeSub('python-exe')
            old.is_crashed = cfg['state'] == 'crashed'
            del FakeSub.created[:]
        env._subprocess = old
        # an unconstrained integer keeps this obligation in the symbolic engine's reach only formally;
        # the state space is the three helper states
        ctx.int('unused')
        out = ctx.call(env._get_subprocess)
        ctx.check(out.exc is None, 'no exception')
        if out.exc is not None:
            return
        if cfg['state'] == 'healthy':
            ctx.check(out.value is old and len(FakeSub.created) == 0, 'a healthy helper is reused')
        else:
            ctx.check(len(FakeSub.created) == 1 and out.value is FakeSub.created[0] and out.value is not old,
                      'a missing or crashed helper is replaced by a new one')
            ctx.check(env._subprocess is out.value, 'the replacement is remembered')
        # real class: state is per instance
        a, b = object.__new__(CompiledSubprocess), object.__new__(CompiledSubprocess)
        ctx.run(CompiledSubprocess.__init__, a, 'x')
        ctx.run(CompiledSubprocess.__init__, b, 'x')
        ctx.check(a._inference_state_deletion_queue is not b._inference_state_deletion_queue
                  and len(b._inference_state_deletion_queue) == 0 and b.is_crashed is False,
                  'a new helper starts with its own empty deletion queue and no crash flag')


class C14c(Obligation):
    id = 'C14.c'
    title = 'helper-side state bookkeeping: deletions are queued once, drained before the next request, never for unused or crashed'
    pattern = 'P2 inductive step over the deletion queue'
    assumptions = (
        'the transport (_send) is a stub recording requests; ids are symbolic integers',
        'queue length Q<=3 with arbitrary ids',
    )

    def configs(self, tier):
        return [dict(Q=q) for q in ((0, 1, 2, 3) if tier == 'quick' else (0, 1, 2, 3, 4, 5))]

    def scenario(self, ctx, cfg):
        sent = []
        sub = CompiledSubprocess('python-exe')
        sub._pysym_holder = True
        ids = [ctx.int('queued%d' % i) for i in range(cfg['Q'])]
        for i in ids:
            sub._inference_state_deletion_queue.append(i)

        def send(inference_state_id, function, args=(), kwargs={}):
            sent.append((inference_state_id, function))
            return 'RESULT'
        sub._send = send
        me = ctx.int('my_id')
        out = ctx.call(sub.run, me, len, ('x',), {})
        ctx.check(out.exc is None and out.value == 'RESULT', 'run() returns the reply')
        ctx.check(len(sent) == cfg['Q'] + 1, 'one delete message per queued id, then the request')
        ctx.check(len(sub._inference_state_deletion_queue) == 0, 'the queue is drained before the request')
        for k in range(cfg['Q']):
            # every queued id is deleted exactly once, with function None
            ctx.check(sent[k][1] is None, 'delete messages carry function None')
        if cfg['Q']:
            got = [e[0] for e in sent[:-1]]
            for i in ids:
                ctx.check(ctx.Or(*[g == i for g in got]), 'every queued id is deleted')
        ctx.check(sent[-1][0] == me and sent[-1][1] is len, 'the request itself comes last')

        # the finalizer of the per-Script handle
        used = ctx.flag('used')
        crashed = ctx.flag('crashed')
        state = InferenceStateSubprocess.__new__(InferenceStateSubprocess)
        state._used = used
        state._compiled_subprocess = sub
        state._inference_state_id = me
        sub.is_crashed = crashed
        out2 = ctx.call(InferenceStateSubprocess.__del__, state)
        ctx.check(out2.exc is None, '__del__ never raises')
        q = list(sub._inference_state_deletion_queue)
        if used and not crashed:
            ctx.check(len(q) == 1 and q[0] == me, 'a used handle queues exactly its own id')
        else:
            ctx.check(len(q) == 0, 'an unused handle, or one of a crashed helper, queues nothing')


class C14d(Obligation):
    id = 'C14.d'
    title = 'helper cleanup: the child is waited for unless kill failed, the reader thread is joined, all three pipes are closed'
    pattern = 'P3 (each OS call may raise OSError)'
    assumptions = ('process.kill/wait and each stream.close may independently raise OSError (symbolic); thread.join is a stub',)

    def scenario(self, ctx, cfg):
        log = []
        kill_fails = ctx.flag('kill_raises')
        wait_fails = ctx.flag('wait_raises')
        close_fails = [ctx.flag('close_%s_raises' % n) for n in ('stdin', 'stdout', 'stderr')]
        ctx.int('unused')

        def op(name, fails):
            def f():
                log.append(name)
                if fails:
                    raise OSError(name)
            return f
        streams = [Obj(close=op('close-' + n, close_fails[i])) for i, n in enumerate(('stdin', 'stdout', 'stderr'))]
        process = Obj(kill=op('kill', kill_fails), wait=op('wait', wait_fails),
                      stdin=streams[0], stdout=streams[1], stderr=streams[2])
        thread = Obj(join=op('join', False))
        ctx.force(jsub._cleanup_process)
        out = ctx.call(jsub._cleanup_process, process, thread)
        ctx.check(out.exc is None, 'cleanup never raises')
        ctx.check(log[0] == 'kill', 'the child is killed first')
        ctx.check(('wait' in log) == (not kill_fails), 'the child is reaped (wait) unless kill itself failed')
        ctx.check('join' in log, 'the stderr reader thread is joined')
        for n in ('stdin', 'stdout', 'stderr'):
            ctx.check(log.count('close-' + n) == 1, 'every pipe is closed, whatever happened to the others')


import queue as _queue  # noqa: E402


class C14e(Obligation):
    id = 'C14.e'
    title = 'stderr of a dying helper can never turn the InternalError into another exception (any bytes)'
    pattern = 'P3 (stderr lines are arbitrary byte strings)'
    assumptions = ('the stderr queue holds n<=2 lines drawn from valid UTF-8, invalid UTF-8 and empty bytes',)

    def configs(self, tier):
        return [dict(n=n) for n in (0, 1, 2)]

    def scenario(self, ctx, cfg):
        samples = (b'plain line\n', b'caf\xe9 \xff\xfe broken\n', b'', b'\xe2\x82')
        q = _queue.Queue()
        for i in range(cfg['n']):
            q.put(samples[ctx.choice('line%d' % i, len(samples))])
        ctx.int('unused')
        ctx.force(jsub._add_stderr_to_debug)
        out = ctx.call(jsub._add_stderr_to_debug, q)
        ctx.check(out.exc is None, 'reporting the helper\'s stderr never raises')
        ctx.check(q.empty(), 'the queue is drained')


class C14f(Obligation):
    id = 'C14.f'
    title = 'a handle that sent a request is marked used even if the request fails, so its helper-side state is released'
    pattern = 'P3 (the request outcome is symbolic: returns or raises helper-side)'
    assumptions = ('CompiledSubprocess.run is a stub that returns or raises; ids are symbolic',)

    def scenario(self, ctx, cfg):
        raises = ctx.flag('request_raises_in_helper')
        sub = CompiledSubprocess('python-exe')
        sub._pysym_holder = True
        seen = []

        def run(inference_state_id, function, args=(), kwargs={}):
            seen.append(inference_state_id)
            if raises:
                raise ValueError('embedded null byte')
            return 'RESULT'
        sub.run = run
        me = ctx.int('my_id')
        state = InferenceStateSubprocess.__new__(InferenceStateSubprocess)
        state._pysym_holder = True
        state._used = False
        state._compiled_subprocess = sub
        state._inference_state_id = me
        state._handles = {}
        ctx.patch(jsub, '_get_function', lambda name: len)
        wrapper = ctx.run(InferenceStateSubprocess.__getattr__, state, 'get_sys_path')
        ctx.force(wrapper)
        out = ctx.call(wrapper)
        ctx.check(len(seen) == 1 and seen[0] == me, 'the request carries the id of this handle')
        ctx.check(state._used is True, 'the handle counts as used as soon as a request went out, whatever its outcome')
        ctx.run(InferenceStateSubprocess.__del__, state)
        q = list(sub._inference_state_deletion_queue)
        ctx.check(len(q) == 1 and q[0] == me, 'dropping the handle queues the release of its helper-side state')
        if raises:
            ctx.check(out.raised(ValueError), 'the helper-side exception is passed on')


OBLIGATIONS = [C14a, C14b, C14c, C14d, C14e, C14f]
