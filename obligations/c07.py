"""C07 - Refactoring results are self-consistent and touch nothing until applied."""
from vf.ob import Obligation, Obj
from pysym.models import SymDict

from jedi.api import refactoring as R
from jedi.api.exceptions import RefactoringError


class Node:
    """stand-in for a parso node of the changed module"""
    _pysym_holder = True

    def __init__(self, root):
        self._root = root

    def get_root_node(self):
        return self._root


def two_atom_component(ctx, name, exclude='/\n\0'):
    x = ctx.str(name + 'x', exclude=exclude)
    y = ctx.str(name + 'y', exclude=exclude)
    c = x + y
    ctx.assume(ctx.And(ctx.len(c) > 0, c != '.', c != '..'))
    return c, x, y


class C07a(Obligation):
    id = 'C07.a'
    title = 'file renames: a changed file moves iff it is the renamed path or lies UNDER it (path boundary)'
    pattern = 'P1 kernel vs reference model'
    sym_containers = True
    assumptions = (
        'POSIX absolute normalised paths; components non-empty, no "/", newline or NUL, not "." / ".."',
        'one rename (from, to) with to = from.parent / new_name, as Refactoring produces them for modules and packages',
        'the changed file is related to the renamed path in one of the ways a string can be (not a string prefix; '
        'equal; below it; string prefix ending inside a component) - exhaustive',
    )
    findings = {'C07-stringprefix': 'changed file whose path merely starts with the text of the renamed path'}

    def configs(self, tier):
        ds = (1, 2) if tier == 'quick' else (1, 2, 3)
        return [dict(depth=d, kind=k) for d in ds for k in ('unrelated', 'equal', 'below', 'inside')]

    def scenario(self, ctx, cfg):
        depth = cfg['depth']            # components of the renamed path
        dirs = [ctx.component('d%d' % i) for i in range(depth - 1)]
        old, oldx, oldy = two_atom_component(ctx, 'old')
        new = ctx.component('new')
        from_ = ctx.path(dirs + [old])
        to = ctx.path(dirs + [new])
        kind = cfg['kind']
        if kind == 'equal':
            pcomps = dirs + [old]
            expected = dirs + [new]
        elif kind == 'below':
            extra = [ctx.component('sub%d' % i) for i in range(1 + ctx.choice('below_depth', 2))]
            pcomps = dirs + [old] + extra
            expected = dirs + [new] + extra
        elif kind == 'inside':
            # .../<old><tail>[/more]: shares the TEXT of the renamed path but is another file
            tail = ctx.str('tail', exclude='/\n\0')
            ctx.assume(ctx.len(tail) > 0)
            extra = [ctx.component('sub%d' % i) for i in range(ctx.choice('below_depth', 2))]
            pcomps = dirs + [old + tail] + extra
            expected = pcomps
        else:
            n = 1 + ctx.choice('plen', depth + 1)
            pcomps = [ctx.component('p%d' % i) for i in range(n)]
            expected = pcomps
        p = ctx.path(pcomps)
        if kind == 'unrelated':
            ctx.assume(ctx.Not(ctx.pathstr(p).startswith(ctx.pathstr(from_))))

        root = Obj()
        changes = SymDict() if ctx.symbolic else {}
        changes[p] = {Node(root): 'new text'}
        state = Obj(project=Obj(path=ctx.path(['project'])), grammar=None)
        ref = R.Refactoring(state, changes, renames=[(from_, to)])
        out = ctx.call(ref.get_changed_files)
        ctx.check(out.exc is None, 'get_changed_files never raises')
        if out.exc is not None:
            return
        files = out.value
        ctx.check(len(files) == 1, 'exactly the changed files are listed')
        cf = list(files.values())[0]
        key = list(files.keys())[0]
        ctx.check(ctx.pathstr(key) == ctx.pathstr(p), 'keyed by the original path')
        ctx.check(ctx.pathstr(cf._to_path) == ctx.pathstr(ctx.path(expected)),
                  'to_path: moved iff the file is the renamed path or lies under it',
                  known={'C07-stringprefix': kind == 'inside'})
        ctx.check(ctx.pathstr(cf._from_path) == ctx.pathstr(p), 'from_path is the original path')
        out2 = ctx.call(ref.get_renames)
        ctx.check(ctx.And(out2.exc is None, len(out2.value) == 1), 'get_renames lists the rename once')


class FakeFile:
    def __init__(self, log, path, kw):
        self.log = log
        self.path = path
        self.kw = kw

    def __enter__(self):
        return self

    def __exit__(self, *a):
        self.log.append(('close', self.path))
        return False

    def write(self, data):
        self.log.append(('write', self.path, data))


import pathlib  # noqa: E402

LOG = []


class RenamablePath(pathlib.PosixPath):
    """a real Path whose rename() is recorded instead of performed"""

    def rename(self, to):
        LOG.append(('rename', self.name, to.name))


class C07d(Obligation):
    id = 'C07.d'
    title = 'apply(): every changed file written once with newline="" and exactly get_new_code(); renames after writes'
    pattern = 'P3 environment stubs (open, Path.rename record their calls)'
    assumptions = (
        'open() and Path.rename are stubs recording their arguments; the grammar refactor() result is an opaque '
        'symbolic string per file',
        'number of changed files F<=3 (thorough 4) and renames R<=2; which file has path=None is symbolic',
    )

    def configs(self, tier):
        fs = (1, 2, 3) if tier == 'quick' else (1, 2, 3, 4)
        return [dict(F=f, R=r) for f in fs for r in (0, 1, 2)]

    def setup_interp(self, I, cfg):
        self.log = []
        I.stubs[open] = self._open

    def _open(self, path, mode='r', **kw):
        self.log.append(('open', path, mode, kw.get('newline', 'MISSING')))
        return FakeFile(self.log, path, kw)

    def scenario(self, ctx, cfg):
        import builtins
        log = LOG
        del log[:]
        self.log = log
        F, Rn = cfg['F'], cfg['R']
        none_at = ctx.choice('path_none_at', F + 1)      # F == no file without path
        paths = [None if i == none_at else RenamablePath('/project/file%d' % i) for i in range(F)]
        codes = [ctx.str('code%d' % i, maxlen=8) for i in range(F)]
        roots = [Obj(idx=i) for i in range(F)]
        changes = {}
        for i in range(F):
            changes[paths[i]] = {Node(roots[i]): 'x'}

        def refactor(module_node, node_to_str_map):
            return codes[module_node.idx]

        state = Obj(project=Obj(path='/project'), grammar=Obj(refactor=refactor))
        renames = [(RenamablePath('/project/old%d' % j), RenamablePath('/project/new%d' % j)) for j in range(Rn)]
        ref = R.Refactoring(state, changes, renames=renames)
        # inspection must not touch the (stubbed) file system
        ctx.run(ref.get_changed_files)
        ctx.run(ref.get_renames)
        ctx.check(len(log) == 0, 'nothing is opened or renamed before apply()')
        if ctx.symbolic:
            out = ctx.call(ref.apply)
        else:
            real_open = builtins.open
            builtins.open = self._open
            try:
                out = ctx.call(ref.apply)
            finally:
                builtins.open = real_open
        if none_at < F:
            ctx.check(out.raised(RefactoringError), 'path=None => RefactoringError')
            return
        ctx.check(out.exc is None, 'apply() succeeds when every file has a path')
        if out.exc is not None:
            return
        opens = [e for e in log if e[0] == 'open']
        writes = [e for e in log if e[0] == 'write']
        rens = [e for e in log if e[0] == 'rename']
        ctx.check(len(opens) == F and len(writes) == F, 'each changed file is opened and written exactly once')
        for i in range(F):
            mine = [e for e in opens if e[1] == paths[i]]
            ctx.check(len(mine) == 1 and mine[0][2] == 'w' and mine[0][3] == '',
                      'opened for writing with newline=""')
            w = [e for e in writes if e[1] == paths[i]]
            ctx.check(len(w) == 1, 'written once')
            if len(w) == 1:
                ctx.check(w[0][2] == codes[i], 'the bytes written are exactly get_new_code()')
        ctx.check(len(rens) == Rn, 'every announced rename is performed once')
        last_write = max([log.index(e) for e in writes] + [-1])
        first_rename = min([log.index(e) for e in rens] + [len(log)])
        ctx.check(last_write < first_rename, 'renames happen after all writes')
        ctx.check([(e[1], e[2]) for e in rens] == [('old%d' % j, 'new%d' % j) for j in range(Rn)],
                  'renames happen in get_renames() order')


from obligations.c01 import code_lines  # noqa: E402


class C07b(Obligation):
    id = 'C07.b'
    title = 'get_diff: the line lists handed to difflib are the old text and get_new_code(); header names are project-relative'
    pattern = 'P1 (difflib.unified_diff and parso.split_lines are stubs; difflib is trusted)'
    assumptions = (
        'old and new text are given as split_lines-shaped line lists (K<=2 lines each); parso.split_lines is a stub '
        'returning them; difflib.unified_diff is a recording stub (difflib itself is trusted)',
        'the file lies inside the project (header names are relative) or outside it (absolute)',
    )
    findings = {'C07-final-newline': 'old or new text without a final newline: jedi diffs text+"\\n" (documented choice in the code)'}

    def configs(self, tier):
        ks = ((1, 1), (1, 2), (2, 1), (2, 2)) if tier == 'quick' else ((1, 1), (1, 2), (2, 1), (2, 2), (3, 3))
        return [dict(KO=a, KN=b) for a, b in ks]

    def scenario(self, ctx, cfg):
        old_lines = code_lines(ctx, cfg['KO'], 4)
        new_lines = [l for l in code_lines_named(ctx, cfg['KN'], 4, 'new')]
        OLD, NEW = Obj(tag='old-code'), Obj(tag='new-code')
        table = {id(OLD): old_lines, id(NEW): new_lines}
        ctx.patch(R, 'split_lines', lambda code, keepends=False: list(table[id(code)]))
        handed = []

        def unified_diff(a, b, fromfile='', tofile=''):
            handed.append((list(a), list(b), fromfile, tofile))
            return iter(['DIFF '])
        ctx.patch(R.difflib, 'unified_diff', unified_diff)
        inside = ctx.flag('file_inside_project')
        project = ctx.path(['proj'])
        path = ctx.path(['proj', 'pkg', 'm.py']) if inside else ctx.path(['elsewhere', 'm.py'])
        state = Obj(project=Obj(path=project), grammar=Obj(refactor=lambda node, mapping: NEW))
        cf = R.ChangedFile(state, path, path, Obj(get_code=lambda: OLD), {})
        cf._pysym_holder = True
        ctx.force(R.ChangedFile.get_diff)
        out = ctx.call(cf.get_diff)
        ctx.check(out.exc is None and len(handed) == 1, 'get_diff produces one unified diff')
        if out.exc is not None or len(handed) != 1:
            return
        a, b, fromfile, tofile = handed[0]
        old_text = _join(old_lines)
        new_text = _join(new_lines)
        no_nl_old = old_lines[-1] != ''
        no_nl_new = new_lines[-1] != ''
        ctx.check(ctx.And(_join(a) == old_text, _join(b) == new_text),
                  'the diff is computed between exactly the original text and get_new_code()',
                  known={'C07-final-newline': ctx.Or(no_nl_old, no_nl_new)})
        # jedi's documented normalisation: each side gets a final newline iff that side lacks one
        ctx.check(_join(a) == old_text + ctx.ite(no_nl_old, '\n', ''), 'old side: final newline added iff missing in the old text')
        ctx.check(_join(b) == new_text + ctx.ite(no_nl_new, '\n', ''), 'new side: final newline added iff missing in the new text')
        expected_name = 'pkg/m.py' if inside else '/elsewhere/m.py'
        ctx.check(fromfile == expected_name and tofile == expected_name, 'header names: project-relative inside the project')


def _join(lines):
    out = ''
    for l in lines:
        out = out + l
    return out


def code_lines_named(ctx, K, maxlen, prefix):
    from obligations.c01 import EOLS
    lines = []
    for i in range(K):
        body = ctx.str('%s_body%d' % (prefix, i), maxlen=maxlen, exclude='\n\r')
        if i < K - 1:
            body = body + ctx.oneof('%s_eol%d' % (prefix, i), EOLS)
        lines.append(body)
    return lines


from jedi.api.refactoring import extract as X  # noqa: E402


class C07c(Obligation):
    id = 'C07.c'
    title = 'extract: the text in front of the replaced expression and of the statement is preserved byte for byte'
    pattern = 'P1 (extract._replace over stand-in nodes with symbolic prefixes)'
    assumptions = (
        'the statement prefix is 1-2 split_lines-shaped lines of symbolic text (parso.split_lines is a stub returning '
        'them), the prefix in front of the extracted expression likewise (comments, continuation lines);'
        ' the extracted code and the replacement are fixed markers',
    )

    def configs(self, tier):
        return [dict(same_leaf=s, n=n) for s in (False, True) for n in (1, 2)]

    def scenario(self, ctx, cfg):
        n = cfg['n']
        plines = code_lines_named(ctx, n, 4, 'stmt_prefix')
        stmt_prefix = _join(plines)
        elines = code_lines_named(ctx, n, 4, 'expr_prefix')
        expr_prefix = _join(elines)
        table = {}

        def split_lines(text, keepends=False):
            for key, val in table.items():
                if val[0] is text:
                    return list(val[1])
            raise AssertionError('unexpected split_lines argument')
        ctx.patch(X, 'split_lines', split_lines)
        table[0] = (stmt_prefix, plines)
        table[1] = (expr_prefix, elines)
        leafA = Obj(prefix=stmt_prefix, value='target')
        if cfg['same_leaf']:
            first_leaf = leafA
        else:
            first_leaf = Obj(prefix=expr_prefix, value='expr')
        stmt = Obj(type='expr_stmt', parent=Obj(type='file_input'), get_first_leaf=lambda: leafA)
        node0 = Obj(type='atom', parent=stmt, get_first_leaf=lambda: first_leaf)
        ctx.force(X._replace)
        out = ctx.call(X._replace, [node0], 'REPL', 'new = expr', (1, 0))
        ctx.check(out.exc is None, 'never raises')
        if out.exc is not None:
            return
        dct = out.value
        inserted = plines[-1] + 'new = expr' + '\n'
        kept_before = _join(plines[:-1])
        if cfg['same_leaf']:
            ctx.check(dct[node0] == kept_before + inserted + plines[-1] + 'REPL',
                      'the new statement is inserted on its own line, everything before the statement is kept')
        else:
            ctx.check(dct[node0] == expr_prefix + 'REPL',
                      'the complete text in front of the replaced expression (comments, line breaks) is kept')
            ctx.check(dct[leafA] == kept_before + inserted + plines[-1] + 'target',
                      'the new statement is inserted in front of the statement, its own prefix is kept')
        ctx.check(len(dct) == (1 if cfg['same_leaf'] else 2), 'nothing else is rewritten')


class C07e(Obligation):
    id = 'C07.e'
    title = 'inline: the lines in front of the removed statement (comments, blank lines) keep their bytes, incl. CRLF'
    pattern = 'P1 (text lemma over split_lines-shaped symbolic lines)'
    assumptions = ('the prefix of the removed statement is K<=3 lines of split_lines shape (each kept line ends in '
                   '\\n, \\r\\n or \\r); parso.split_lines is a stub returning them',)

    def configs(self, tier):
        return [dict(K=k) for k in (1, 2, 3)]

    def scenario(self, ctx, cfg):
        lines = code_lines_named(ctx, cfg['K'], 4, 'prefix')
        prefix = _join(lines)
        ctx.patch(R, 'split_lines', lambda text, keepends=False: list(lines) if keepends else
                  [l.rstrip('\r\n') if isinstance(l, str) else l for l in lines])
        out = ctx.call(R._remove_indent_of_prefix, prefix)
        ctx.check(out.exc is None, 'never raises')
        if out.exc is None:
            ctx.check(out.value == _join(lines[:-1]),
                      'exactly the last (indentation) line is dropped; all other bytes, line endings included, are kept')


class C07f(Obligation):
    id = 'C07.f'
    title = 'extract: the indentation re-used for the rewritten statement is the REAL indentation text of the line (tabs stay tabs)'
    pattern = 'P1 (extract._get_indentation over a symbolic prefix; the column is the length of the indentation)'
    assumptions = (
        'the prefix of the node is K<=3 split_lines-shaped lines; the last one is the indentation: a symbolic string over '
        '{space, tab} of length<=4 (no line break); the column of the node is its length (tabs count 1, as parso counts)',
    )

    def configs(self, tier):
        return [dict(K=k) for k in (1, 2, 3)]

    def scenario(self, ctx, cfg):
        before = code_lines_named(ctx, cfg['K'], 4, 'above')[:-1]
        indent = ctx.str('indentation', maxlen=4, alphabet=' \t')
        lines = before + [indent]
        prefix = _join(lines)
        ctx.patch(X, 'split_lines', lambda text, keepends=False: list(lines))
        leaf = Obj(prefix=prefix, value='stmt')
        node = Obj(get_first_leaf=lambda: leaf, start_pos=(len(lines), ctx.len(indent)), type='expr_stmt')
        ctx.force(X._get_indentation)
        out = ctx.call(X._get_indentation, node)
        ctx.check(out.exc is None, 'never raises')
        if out.exc is None:
            ctx.check(out.value == indent, 'the indentation text is taken over byte for byte')


OBLIGATIONS = [C07a, C07b, C07c, C07d, C07e, C07f]
