"""C19 - Project search finds every definition and honours ignore rules (walk / ignore / hand-over logic)."""
from vf.ob import Obligation, Obj
from pysym.models import SymBytes

from jedi.inference import references as jrefs
from jedi.api import project as jproject
from jedi.api.project import Project

IGNORED_NAMES = jrefs._IGNORE_FOLDERS


class Blob:
    def __init__(self, lines):
        self._lines = lines

    def splitlines(self):
        return list(self._lines)


class FileStub:
    _pysym_holder = True

    def __init__(self, ctx, comps, tag, lines=None):
        self.path = ctx.path(comps)
        self.tag = tag
        self._lines = lines

    def read(self):
        return Blob(self._lines)


class FolderStub:
    """stand-in for FolderIO over a fixed directory tree; walk() honours pruning like os.walk(topdown)"""
    _pysym_holder = True

    def __init__(self, ctx, comps, tag, tree=None):
        self.comps = comps
        self.path = '/' + '/'.join(comps)
        self.tag = tag
        self.tree = tree            # (subfolders, files) for walking
        self.children = []
        self.files = []

    def get_base_name(self):
        return self.comps[-1]

    def walk(self):
        todo = [self]
        while todo:
            cur = todo.pop(0)
            kept = list(cur.children)
            yield cur, kept, list(cur.files)
            todo = kept + todo


LINE_KINDS = ('relative', 'relative_slash', 'anchored', 'comment', 'negation', 'glob', 'empty')


class C19a(Obligation):
    id = 'C19.a'
    title = '.gitignore / ignore-folder logic of the project walk is path-component exact and confined to the subtree of the .gitignore'
    pattern = 'P1 (real recurse_find_python_folders_and_files over a stub directory tree with symbolic names)'
    sym_containers = True
    assumptions = (
        'tree: root/{d1/{.gitignore, sub1/{deep/}, mod1.py}, d2/{sub2/, mod2.py}} with symbolic names; d2 is either d1 plus a '
        'non-empty tail (shares its text) or an unrelated name; names are non-empty, contain no "/", newline, NUL',
        'the .gitignore has one line of each kind in turn: name, name/, /name, #comment, !negation, glob, empty; '
        'bytes are ASCII (decode is the identity); a trailing-slash entry names a folder',
        'folder walking itself (os.walk, FolderIO.walk) is replaced by a stub generator that honours pruning',
    )
    findings = {'C19-stringprefix': 'relative ignore entry applied to a sibling folder whose path merely starts with the same text',
                'C19-file-entries': 'ignore entries naming a file are never honoured (str vs Path membership)'}

    def configs(self, tier):
        return [dict(kind=k, d2=d) for k in LINE_KINDS for d in ('extends_d1', 'unrelated')]

    def scenario(self, ctx, cfg):
        ex = '/\n\0*#!'
        r = 'root'
        d1 = ctx.str('d1', exclude=ex)
        ctx.assume(ctx.len(d1) > 0)
        if cfg['d2'] == 'extends_d1':
            tail = ctx.str('d2_tail', exclude=ex)
            ctx.assume(ctx.len(tail) > 0)
            d2 = d1 + tail
        else:
            d2 = ctx.str('d2', exclude=ex)
            ctx.assume(ctx.And(ctx.len(d2) > 0, ctx.Not(d2.startswith(d1))))
        sub1 = ctx.str('sub1', exclude=ex)
        sub2 = ctx.str('sub2', exclude=ex)
        deep = ctx.str('deep', exclude=ex)
        f1 = ctx.str('mod1', exclude=ex + '.')
        f2 = ctx.str('mod2', exclude=ex + '.')
        entry = ctx.str('entry', exclude=ex)
        for v in (sub1, sub2, deep, f1, f2, entry):
            ctx.assume(ctx.len(v) > 0)
        for v in (d1, d2, sub1, sub2, deep):
            ctx.assume(ctx.And(v != '.', v != '..'))
        kind = cfg['kind']
        if kind == 'relative_slash':
            ctx.assume(entry != f1 + '.py')     # a trailing-slash entry names a folder (stated assumption)
        line = {'relative': entry, 'relative_slash': entry + '/', 'anchored': '/' + entry,
                'comment': '#' + entry, 'negation': '!' + entry, 'glob': entry + '*', 'empty': ''}[kind]

        root = FolderStub(ctx, [r], 'root')
        D1 = FolderStub(ctx, [r, d1], 'd1')
        D2 = FolderStub(ctx, [r, d2], 'd2')
        S1 = FolderStub(ctx, [r, d1, sub1], 'sub1')
        S2 = FolderStub(ctx, [r, d2, sub2], 'sub2')
        root.children = [D1, D2]
        D1.children = [S1]
        DEEP = FolderStub(ctx, [r, d1, sub1, deep], 'deep')
        S1.children = [DEEP]
        D2.children = [S2]
        gi = FileStub(ctx, [r, d1, '.gitignore'], 'gitignore', [SymBytes(line)])
        M1 = FileStub(ctx, [r, d1, f1 + '.py'], 'mod1')
        M2 = FileStub(ctx, [r, d2, f2 + '.py'], 'mod2')
        D1.files = [gi, M1]
        D2.files = [M2]

        out = ctx.call(lambda: [(a.tag if a is not None else None, b.tag if b is not None else None)
                                for a, b in jrefs.recurse_find_python_folders_and_files(root)])
        ctx.check(out.exc is None, 'the walk never raises')
        if out.exc is not None:
            return
        folders = [a for a, b in out.value if a is not None]
        files = [b for a, b in out.value if b is not None]
        ctx.observe((folders, files), 'yielded')
        active = kind in ('relative', 'relative_slash', 'anchored')

        def builtin_ignored(name):
            return ctx.Or(*[name == n for n in IGNORED_NAMES])
        # ---- folders
        exp = {
            'd1': ctx.Not(builtin_ignored(d1)),
            'd2': ctx.Not(builtin_ignored(d2)),
        }
        exp['sub1'] = ctx.And(exp['d1'], ctx.Not(builtin_ignored(sub1)),
                              ctx.Not(ctx.And(active, entry == sub1)))
        exp['deep'] = ctx.And(exp['sub1'], ctx.Not(builtin_ignored(deep)),
                              ctx.Not(ctx.And(kind in ('relative', 'relative_slash'), entry == deep)))
        exp['sub2'] = ctx.And(exp['d2'], ctx.Not(builtin_ignored(sub2)))        # never touched by d1/.gitignore
        known = {'C19-stringprefix': ctx.And(cfg['d2'] == 'extends_d1', kind in ('relative', 'relative_slash'),
                                              entry == sub2)}
        for tag in ('d1', 'd2', 'sub1', 'deep', 'sub2'):
            got = tag in folders
            ctx.check(ctx.iff(got, exp[tag]), 'folder %s is walked iff no ignore rule names it' % tag,
                      known=known if tag == 'sub2' else None)
        # ---- python files
        exp_m1 = ctx.And(exp['d1'], ctx.Not(ctx.And(kind in ('relative', 'anchored'), entry == f1 + '.py')))
        exp_m2 = exp['d2']
        ctx.check(ctx.iff('mod1' in files, exp_m1), 'mod1.py is offered iff it is not ignored',
                  known={'C19-file-entries': ctx.And(kind in ('relative', 'anchored'), entry == f1 + '.py')})
        ctx.check(ctx.iff('mod2' in files, exp_m2), 'mod2.py (outside the .gitignore subtree) is offered')
        ctx.check('gitignore' not in files, 'non-Python files are not offered')


class Ctx2:
    """stand-in for the module context search_in_file_ios yields"""
    def __init__(self, tag):
        self.tag = tag
        self.tree_node = Obj()

    def create_name(self, n):
        return n


class C19f(Obligation):
    id = 'C19.f'
    title = 'project search hands EVERY python file of the walk to the identifier scan (also files named like the search)'
    pattern = 'P3 (walk, module loading and the per-module search are stubs; file names symbolic)'
    assumptions = (
        'recurse_find_python_folders_and_files, load_module_from_path, search_in_module, search_in_file_ios, '
        'iter_module_names, Script and _get_sys_path are stubs; F<=3 files with symbolic names',
    )

    def configs(self, tier):
        return [dict(F=f) for f in (1, 2, 3)]

    def scenario(self, ctx, cfg):
        import jedi
        name = ctx.str('search_name', maxlen=4, exclude='/\n\0 .')
        ctx.assume(ctx.len(name) > 0)
        files = []
        for i in range(cfg['F']):
            stem = ctx.str('file%d' % i, maxlen=4, exclude='/\n\0 .')
            ctx.assume(ctx.len(stem) > 0)
            files.append(Obj(path=ctx.path(['proj', stem + ctx.oneof('ext%d' % i, ('.py', '.pyi'))]), tag='file%d' % i))
        scanned = []
        loaded = []
        ctx.patch(jproject, 'recurse_find_python_folders_and_files', lambda folder: [(None, f) for f in files])
        ctx.patch(jproject, 'load_module_from_path',
                  lambda state, f: loaded.append(f.tag) or Obj(as_context=lambda: Obj(name='m')))
        ctx.patch(jproject, 'search_in_module', lambda *a, **k: [])

        def search_in_file_ios(state, file_ios, nm, complete=False):
            scanned.extend(f.tag for f in file_ios)
            return []
        ctx.patch(jproject, 'search_in_file_ios', search_in_file_ios)
        ctx.patch(jproject, 'iter_module_names', lambda *a: [])
        ctx.patch(jproject, 'FolderIO', lambda p: Obj(path=p))
        ctx.patch(jedi, 'Script', lambda code, project=None: Obj(_inference_state=Obj(),
                                                                   _get_module_context=lambda: Obj()))
        proj = Project.__new__(Project)
        proj._pysym_holder = True
        proj._path = 'proj'
        proj._get_sys_path = lambda state: []
        raw = Project._search_func
        while getattr(raw, '__closure__', None) and not hasattr(raw, '__code__') or \
                (getattr(raw, '__closure__', None) and raw.__code__.co_name == 'wrapper'):
            raw = [c.cell_contents for c in raw.__closure__ if callable(c.cell_contents)][0]
        ctx.force(raw)
        out = ctx.call(lambda: list(raw(proj, name)))
        ctx.check(out.exc is None, 'search never raises')
        if out.exc is not None:
            return
        ctx.check(scanned == [f.tag for f in files], 'every python file found by the walk is scanned for identifiers, once, in order')
        for i, f in enumerate(files):
            is_named = ctx.Or(f.path.name == name + '.py', f.path.name == name + '.pyi')
            ctx.check(ctx.iff(f.tag in loaded, is_named), 'a file named like the search is (also) reported as a module')


from jedi import file_io as jfile_io  # noqa: E402
from jedi.api import helpers as jhelpers  # noqa: E402


class C19b(Obligation):
    id = 'C19.b'
    title = 'FolderIO.walk translates the caller\'s pruning of the folder list into os.walk\'s dirs, exactly and in order'
    pattern = 'P3 (os.walk is a stub generator that exposes its dirs list; which folders the caller removes is symbolic)'
    assumptions = ('one directory level with n<=4 sub-folders; the caller removes a symbolic subset in place '
                   '(slice assignment, as recurse_find_python_folders_and_files does) or reorders nothing',)

    def configs(self, tier):
        return [dict(n=n) for n in (0, 1, 2, 3, 4)]

    def scenario(self, ctx, cfg):
        n = cfg['n']
        names = ['sub%d' % i for i in range(n)]
        dirs = list(names)
        after = []

        def fake_walk(path):
            yield path, dirs, ['a.py']
            after.append(list(dirs))
        ctx.patch(jfile_io.os, 'walk', fake_walk)
        keep = [ctx.flag('keep_%s' % nm) for nm in names]
        ctx.int('unused')
        folder = jfile_io.FolderIO('/root')
        ctx.force(jfile_io.FolderIO.walk)

        def drive():
            seen = []
            for root_io, folder_ios, file_ios in folder.walk():
                seen.append(([str(f.path) for f in folder_ios], [str(f.path) for f in file_ios]))
                folder_ios[:] = [f for i, f in enumerate(folder_ios) if keep[i]]
            return seen
        out = ctx.call(drive)
        ctx.check(out.exc is None, 'walking never raises')
        if out.exc is not None:
            return
        ctx.check(out.value == [(['/root/' + nm for nm in names], ['/root/a.py'])], 'one step listing every sub-folder and file')
        expected = [nm for i, nm in enumerate(names) if keep[i]]
        ctx.check(after == [expected], 'os.walk descends exactly into the folders the caller kept, in order')


class C19d(Obligation):
    id = 'C19.d'
    title = 'search string: "type name.path" splits into the wanted type (def -> function) and the dotted names'
    pattern = 'P1 over structured symbolic strings'
    assumptions = ('the search string is [type " "] name ("." name)* with symbolic, space- and dot-free parts',)

    def configs(self, tier):
        return [dict(parts=k, typed=t) for k in (1, 2, 3) for t in (False, True)]

    def scenario(self, ctx, cfg):
        parts = [ctx.str('name%d' % i, exclude=' .\n') for i in range(cfg['parts'])]
        dotted = parts[0]
        for p in parts[1:]:
            dotted = dotted + '.' + p
        if cfg['typed']:
            typ = ctx.str('type', exclude=' .\n')
            string = typ + ' ' + dotted
        else:
            typ = ''
            string = dotted
        out = ctx.call(jhelpers.split_search_string, string)
        ctx.check(out.exc is None, 'never raises')
        if out.exc is not None:
            return
        wanted_type, names = out.value
        exp_type = ctx.ite(typ == 'def', 'function', typ) if cfg['typed'] else ''
        ctx.check(wanted_type == exp_type, 'type = text before the last space; "def" means function')
        ctx.check(len(names) == len(parts) and ctx.And(*[names[i] == parts[i] for i in range(len(parts))]),
                  'names = dotted components in order')


class C19e(Obligation):
    id = 'C19.e'
    title = 'search results: a hit is dropped only if the very same token (or module file) was already reported'
    pattern = 'P3 (the stream of raw hits is symbolic: which token, which file, which position)'
    sym_containers = True
    assumptions = (
        'a stream of k<=3 raw hits; each refers to one of two name tokens (in files with the SAME base name and possibly '
        'the SAME line/column) or is a module hit for one of two paths; identity of tokens and paths is what matters',
    )

    def configs(self, tier):
        return [dict(k=k) for k in (1, 2, 3)]

    def scenario(self, ctx, cfg):
        k = cfg['k']
        line = ctx.int('line', 1)
        col = ctx.int('column', 0)
        # two distinct tokens at the same position in two files called util.py, and two module paths
        tokens = [Obj(tag='token-in-pkg_a/util.py', start_pos=(line, col)), Obj(tag='token-in-pkg_b/util.py', start_pos=(line, col))]
        paths = ['/proj/pkg_a/util.py', '/proj/pkg_b/util.py']
        hits = []
        for i in range(k):
            kind = ctx.choice('hit%d_kind' % i, 4)       # 0,1: token 0/1   2,3: module path 0/1
            if kind < 2:
                hits.append(Obj(_name=Obj(tree_name=tokens[kind]), type='function', module_path=paths[kind],
                                module_name='util', tag='hit%d' % i, key=('tok', kind)))
            else:
                hits.append(Obj(_name=Obj(tree_name=None), type='module', module_path=paths[kind - 2],
                                module_name='util', tag='hit%d' % i, key=('mod', kind - 2)))
        wrapped = jproject._try_to_skip_duplicates(lambda: iter(hits))
        ctx.force(wrapped)
        out = ctx.call(lambda: list(wrapped()))
        ctx.check(out.exc is None, 'never raises')
        if out.exc is not None:
            return
        seen = []
        expected = []
        for h in hits:
            if h.key not in seen:
                expected.append(h)
                seen.append(h.key)
        ctx.check(len(out.value) == len(expected) and all(a is b for a, b in zip(out.value, expected)),
                  'exactly the first report of every distinct token / module file is kept, in order')


class C19c(Obligation):
    id = 'C19.c'
    title = 'identifier scan: every file whose text mentions the name is parsed and yielded, in order, up to the documented file limits and not one file less'
    pattern = 'P3 (stream of N files with symbolic "mentions the name" / "is compiled" / "vanished" answers; limits read from the module)'
    assumptions = (
        'the walk yields N<=8 files; reading, the regex test and module loading are stubs answering symbolically per file '
        '(vanished / does not mention the name / mentions it and is python / mentions it but loads as compiled); the two '
        'limits are patched to 2 parsed and 3 opened files so that the bounds are reachable (limit_reduction 1 and 2)',
        'reference: scan the first `open_limit` files; yield the python files mentioning the name until `parse_limit` of them were yielded',
    )

    def configs(self, tier):
        ns = (3, 5, 7) if tier == 'quick' else (1, 2, 3, 4, 5, 6, 7, 8)
        return [dict(N=n, red=r) for n in ns for r in (1, 2)]

    def scenario(self, ctx, cfg):
        N = cfg['N']
        ctx.patch(jrefs, '_PARSED_FILE_LIMIT', 2 * cfg['red'])
        ctx.patch(jrefs, '_OPENED_FILE_LIMIT', 3 * cfg['red'])
        drawn = {}

        class Kinds:       # drawn lazily: files the scan never reaches stay unconstrained
            def __getitem__(self, i):       # 0 vanished 1 no mention 2 python hit 3 compiled
                if i not in drawn:
                    drawn[i] = ctx.choice('file%d_kind' % i, 4)
                return drawn[i]
        kinds = Kinds()
        opened = []

        class FileIO:
            def __init__(self, i):
                self.i = i
                self.path = '/proj/f%d.py' % i

            def read(self):
                opened.append(self.i)
                if kinds[self.i] == 0:
                    raise FileNotFoundError(self.path)
                return b'x'
        decoded = []

        def decode(code, errors='strict'):
            decoded.append('decoded-text-of-file%d' % opened[-1])
            return decoded[-1]
        ctx.patch(jrefs, 'python_bytes_to_unicode', decode)
        searched = []
        patterns = []

        class Regex:
            def search(self, code):
                searched.append(code)
                return kinds[opened[-1]] >= 2
        import re as _re
        ctx.patch(jrefs, 're', Obj(compile=lambda pat, *flags: patterns.append(pat) or Regex(), escape=_re.escape))
        ctx.patch(jrefs, 'KnownContentFileIO', lambda path, code: Obj(path=path))
        ctx.patch(jrefs, 'load_module_from_path',
                  lambda state, fio: Obj(is_compiled=lambda: kinds[opened[-1]] == 3,
                                         as_context=lambda: 'module-context-of-file%d' % opened[-1]))
        ctx.force(jrefs.search_in_file_ios, jrefs._check_fs)
        out = ctx.call(lambda: list(jrefs.search_in_file_ios(None, [FileIO(i) for i in range(N)], 'name',
                                                              limit_reduction=cfg['red'])))
        ctx.check(out.exc is None, 'the scan never raises (a file that vanished is skipped)')
        if out.exc is not None:
            return
        expected = []
        expected_opened = []
        for i in range(N):
            expected_opened.append(i)
            if kinds[i] == 2:
                expected.append('module-context-of-file%d' % i)
                if len(expected) >= 2:
                    break
            if len(expected_opened) >= 3:
                break
        ctx.check(out.value == expected, 'exactly the python files mentioning the name, in walk order, up to the parse limit')
        ctx.check(opened == expected_opened, 'files are opened once each, in order, and none beyond the limits')
        ctx.check(patterns == [r'\bname\b'], 'the pre-filter is the word-bounded identifier as a TEXT pattern (unicode word boundaries)')
        ctx.check(searched == decoded and all(isinstance(t, str) for t in searched),
                  'the pre-filter looks at the DECODED text of each file (source encoding honoured), never at raw bytes')


OBLIGATIONS = [C19a, C19b, C19c, C19d, C19e, C19f]
