"""C12 - Analysing sources with Script never executes them (the decision kernels)."""
import sys
import warnings

from vf.ob import Obligation, Obj

from jedi.inference import imports as jimports
from jedi.inference import compiled as jcompiled
from jedi.inference.compiled import access as jaccess
from jedi.inference.compiled.subprocess import functions as jfunctions


class C12a(Obligation):
    id = 'C12.a'
    title = 'compiled/auto-import loading only ever searches entries of the environment\'s own sys.path'
    pattern = 'P1 (the only importing function is a recording stub)'
    sym_containers = True
    assumptions = (
        'sys.path handed to the loader: <=3 arbitrary strings; environment base path: <=2 arbitrary strings',
        'compiled.load_module (the only function that calls __import__) is a stub recording its sys_path',
        'the project is a real Project (its _get_base_sys_path is executed) with or without an explicit sys_path; the environment path has no empty entry',
    )

    def configs(self, tier):
        ns = ((1, 1), (2, 1), (2, 2), (3, 2)) if tier == 'quick' else ((1, 1), (2, 2), (3, 2), (4, 2), (3, 3))
        return [dict(n=n, b=b, given=g, explicit=e) for n, b in ns for g in (True, False) for e in (False, True)]

    def scenario(self, ctx, cfg):
        sys_path = [ctx.str('entry%d' % i, maxlen=4) for i in range(cfg['n'])]
        base = [ctx.str('base%d' % i, maxlen=4) for i in range(cfg['b'])]
        unsafe = ctx.bool('load_unsafe_extensions')
        seen = []

        def load_module(inference_state, dotted_name, sys_path):
            seen.append((dotted_name, list(sys_path)))
            return 'MODULE'

        ctx.patch(jimports.compiled, 'load_module', load_module)
        # a real Project: the whitelist must be the ENVIRONMENT's path even when the user configured sys_path
        from jedi.api.project import Project
        from obligations.c20 import raw
        project = Project.__new__(Project)
        project._pysym_holder = True
        project._load_unsafe_extensions = unsafe
        project._sys_path = list(sys_path) if cfg.get('explicit') else None
        project._smart_sys_path = False
        project.added_sys_path = []
        real_base = raw(Project._get_base_sys_path)
        project._get_base_sys_path = lambda state: ctx.run(real_base, project, state)
        state = Obj(project=project, get_sys_path=lambda: list(sys_path),
                    environment=Obj(get_sys_path=lambda: list(base)))
        for b in base:
            ctx.assume(b != '')
        out = ctx.call(jimports._load_builtin_module, state, ('pkg', 'mod'),
                       list(sys_path) if cfg['given'] else None)
        ctx.check(out.exc is None and out.value == 'MODULE', 'loads through compiled.load_module')
        ctx.check(len(seen) == 1 and seen[0][0] == 'pkg.mod', 'exactly one load request for the dotted name')
        if len(seen) != 1:
            return
        handed = seen[0][1]
        if unsafe:
            ctx.check(len(handed) == len(sys_path), 'unsafe mode: the search path is used as given')
            return
        for p in handed:
            ctx.check(ctx.Or(*[p == b for b in base]), 'safe mode: every searched entry is an entry of the environment path')
        # nothing safe is lost and the order is kept: handed == [p for p in sys_path if p in base]
        k = 0
        for p in sys_path:
            safe = ctx.Or(*[p == b for b in base])
            if safe:
                ctx.check(k < len(handed) and handed[k] == p, 'safe entries are kept in order')
                k += 1
        ctx.check(k == len(handed), 'nothing but the safe entries is searched')


class FakeSys:
    def __init__(self, path):
        self.path = path
        self.modules = sys.modules


IMPORT_OUTCOMES = (('json', 'returns'), ('no_such_module_for_verif_xyz', 'ImportError'), ('', 'other Exception'))


class C12b(Obligation):
    id = 'C12.b'
    title = 'compiled.access.load_module imports with exactly the given search path and restores sys.path on every outcome of __import__'
    pattern = 'P3 (outcome of __import__ in {returns, ImportError, other Exception})'
    assumptions = (
        'the module global `sys` of jedi.inference.compiled.access is replaced by a stand-in so that the real '
        'sys.path of the checking process is never touched; __import__ is the real one, driven to each outcome by the name',
    )

    def configs(self, tier):
        return [dict(outcome=i) for i in range(len(IMPORT_OUTCOMES))]

    def scenario(self, ctx, cfg):
        name, what = IMPORT_OUTCOMES[cfg['outcome']]
        original = ['orig-entry']
        fake = FakeSys(original)
        ctx.patch(jaccess, 'sys', fake)
        ctx.patch(jaccess, 'create_access_path', lambda state, module: ('ACCESS', module.__name__))
        ctx.patch(warnings, 'warn', lambda *a, **k: None)
        ctx.force(jaccess.load_module)
        n = ctx.choice('n_entries', 3)
        search = [ctx.str('search%d' % i, maxlen=3) for i in range(n)]
        during = []
        real_import = __import__

        def recording_import(dotted_name, *a, **k):
            during.append(list(fake.path))
            return real_import(dotted_name, *a, **k)
        ctx.patch(jaccess, '__import__', recording_import)
        out = ctx.call(jaccess.load_module, None, name, search)
        ctx.check(out.exc is None, 'load_module contains every import failure')
        ctx.check(len(during) == 1 and len(during[0]) == n and all(ctx.eq(a, b) for a, b in zip(during[0], search)),
                  'while the import runs, sys.path is EXACTLY the given (filtered) search path - no entry of the host process')
        ctx.check(fake.path is original and original == ['orig-entry'],
                  'sys.path is the same object with the same content afterwards')
        if what == 'returns':
            ctx.check(out.value == ('ACCESS', 'json'), 'the imported module is returned')
        else:
            ctx.check(out.value is None, 'a failing import yields None')


FIND_OUTCOMES = ('returns', 'ImportError', 'ValueError')


class C12c(Obligation):
    id = 'C12.c'
    title = 'helper-side get_module_info restores sys.path on every outcome of the module search'
    pattern = 'P3 (outcome of _find_module in {returns, ImportError, other Exception})'
    assumptions = ('module global `sys` of subprocess.functions replaced by a stand-in; _find_module is a stub',)

    def configs(self, tier):
        return [dict(outcome=o, given=g) for o in FIND_OUTCOMES for g in (True, False)]

    def scenario(self, ctx, cfg):
        original = ['orig-entry']
        fake = FakeSys(original)
        ctx.patch(jfunctions, 'sys', fake)
        during = []

        def find_module(full_name=None, **kwargs):
            during.append(list(fake.path))
            if cfg['outcome'] == 'ImportError':
                raise ImportError('not found')
            if cfg['outcome'] == 'ValueError':
                raise ValueError('boom')
            return ('INFO', True)

        ctx.patch(jfunctions, '_find_module', find_module)
        ctx.force(jfunctions.get_module_info)
        n = ctx.choice('n_entries', 3)
        search = [ctx.str('search%d' % i, maxlen=3) for i in range(n)] if cfg['given'] else None
        out = ctx.call(jfunctions.get_module_info, None, sys_path=search, full_name='a.b', string='b')
        ctx.check(fake.path is original and original == ['orig-entry'],
                  'sys.path is the same object with the same content afterwards')
        if cfg['outcome'] == 'returns':
            ctx.check(out.exc is None and out.value == ('INFO', True), 'result of the search is returned')
        elif cfg['outcome'] == 'ImportError':
            ctx.check(out.exc is None and out.value == (None, None), 'not found => (None, None)')
        else:
            ctx.check(out.raised(ValueError), 'other errors propagate (after the restore)')
        if cfg['given']:
            ctx.check(len(during) == 1 and ctx.eq(during[0], search), 'the search runs under the requested path')


from obligations.c20 import C20b  # noqa: E402


class C12d(C20b):
    id = 'C12.d'
    title = 'computing a Script\'s search path never widens the whitelist of directories compiled modules may be imported from'


from jedi.plugins import pytest as jpytest  # noqa: E402
from jedi.inference import helpers as jhelpers  # noqa: E402


class C12e(Obligation):
    id = 'C12.e'
    title = 'pytest_plugins entries read from a conftest are imported statically, one identifier per step: no dotted text ever reaches the module search (where importlib would import the parent package for real)'
    pattern = 'P1 (the plugin name is an unbounded symbolic string; import_module is a recording stub)'
    assumptions = (
        'the string found in pytest_plugins is a symbolic string with at most 3 dots (unbounded components, no NUL); '
        'name inference and get_str_or_none are stubs delivering it; import_module records its argument',
    )
    z3_timeout = 10.0

    def configs(self, tier):
        return [dict(dots=d) for d in (0, 1, 2, 3)]

    def scenario(self, ctx, cfg):
        parts = [ctx.str('component%d' % i, maxlen=8, exclude='.\0') for i in range(cfg['dots'] + 1)]
        fq = parts[0]
        for p in parts[1:]:
            fq = fq + '.' + p
        handed = []
        state = Obj(import_module=lambda names: handed.append(list(names)) or [])
        module_context = Obj(inference_state=state)
        value = Obj(tag='string-value')
        name = Obj(infer=lambda: [Obj(py__iter__=lambda: [Obj(infer=lambda: [value])])])
        ctx.patch(jhelpers, 'get_str_or_none', lambda v: fq)
        ctx.force(jpytest._load_pytest_plugins)
        out = ctx.call(lambda: list(jpytest._load_pytest_plugins(module_context, name)))
        ctx.check(out.exc is None, 'never raises')
        if out.exc is not None:
            return
        if len(handed) == 0:
            ctx.check(fq == '', 'only an empty entry is skipped')
            return
        ctx.check(len(handed) == 1, 'one import per entry')
        names = handed[0]
        ctx.check(len(names) == len(parts), 'one import step per dotted component')
        if len(names) == len(parts):
            ctx.check(ctx.And(*[ctx.eq(a, b) for a, b in zip(names, parts)]),
                      'every step is one component of the name, none contains a dot')


OBLIGATIONS = [C12a, C12b, C12c, C12d, C12e]
