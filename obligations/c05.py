"""C05 - Rename rewrites exactly the references and preserves behaviour (map => text kernels)."""
import parso

from vf.ob import Obligation, Obj

from jedi.api import refactoring as R
from jedi.api.exceptions import RefactoringError

GRAMMAR = parso.load_grammar()


class Leaf:
    """stand-in for a parso leaf: prefix (whitespace/comments before it) and value"""
    _pysym_holder = True
    type = 'name'

    def __init__(self, prefix, value):
        self.prefix = prefix
        self.value = value


class Def:
    _pysym_holder = True

    def __init__(self, tree_name, path, type_='statement'):
        self._name = Obj(tree_name=tree_name)
        self.module_path = path
        self.type = type_


class C05a(Obligation):
    id = 'C05.a'
    title = 'rename: exactly the reported tokens are rewritten, every other byte is kept; renaming back restores the text'
    pattern = 'P1 (real rename + parso RefactoringNormalizer over a flat token list with symbolic text)'
    interpret_modules = ('jedi', 'parso', 'obligations')
    assumptions = (
        'the module is a flat list of k<=4 tokens with symbolic prefix and value (<=4 chars each); which tokens '
        'get_references reported is a symbolic subset; reported tokens are spelled like the old name',
    )

    def configs(self, tier):
        return [dict(k=k) for k in ((1, 2, 3) if tier == 'quick' else (1, 2, 3, 4, 5))]

    def scenario(self, ctx, cfg):
        k = cfg['k']
        old = ctx.str('old_name', maxlen=4)
        new = ctx.str('new_name', maxlen=4)
        leaves = []
        reported = []
        for i in range(k):
            prefix = ctx.str('prefix%d' % i, maxlen=4)
            is_ref = ctx.flag('token%d_reported' % i)
            value = old if is_ref else ctx.str('value%d' % i, maxlen=4)
            leaf = Leaf(prefix, value)
            leaves.append(leaf)
            if is_ref:
                reported.append(leaf)
        module = Obj(type='file_input', children=leaves, get_root_node=lambda: module)
        for l in leaves:
            l.get_root_node = lambda: module
        import pathlib
        path = pathlib.Path('/proj/mod.py')
        state = Obj(grammar=GRAMMAR, project=Obj(path=pathlib.Path('/proj')))
        defs = [Def(l, path) for l in reported]
        out = ctx.call(R.rename, state, defs, new)
        if not reported:
            ctx.check(out.raised(RefactoringError), 'nothing to rename => RefactoringError')
            return
        ctx.check(out.exc is None, 'rename builds a refactoring')
        if out.exc is not None:
            return
        ref = out.value
        ctx.check(len(ref.get_renames()) == 0, 'renaming a variable renames no file')
        files = ctx.run(ref.get_changed_files)
        ctx.check(len(files) == 1, 'one changed file')
        cf = list(files.values())[0]
        out2 = ctx.call(cf.get_new_code)
        ctx.check(out2.exc is None, 'get_new_code never raises')
        if out2.exc is not None:
            return
        expected = ''
        original = ''
        for l in leaves:
            expected = expected + l.prefix + (new if l in reported else l.value)
            original = original + l.prefix + l.value
        ctx.check(out2.value == expected, 'exactly the reported tokens are replaced, all other text is kept byte for byte')
        # rename back on the same token set
        back = ctx.run(R.rename, state, defs, old)
        cf2 = list(ctx.run(back.get_changed_files).values())[0]
        ctx.check(ctx.run(cf2.get_new_code) == original, 'renaming back restores the original text')


class C05f(Obligation):
    id = 'C05.f'
    title = 'renaming a module / package announces exactly dir/new+suffix resp. dir.parent/new'
    pattern = 'P1'
    assumptions = ('module path: 2 directory components and a file name built from a symbolic stem and one of .py/.pyi; '
                   'or an __init__ file (package)',)

    def configs(self, tier):
        return [dict(kind=k) for k in ('module', 'package')]

    def scenario(self, ctx, cfg):
        d0, d1 = ctx.component('dir0'), ctx.component('dir1')
        new = ctx.component('new_name')
        ext = ctx.oneof('ext', ('.py', '.pyi'))
        if cfg['kind'] == 'module':
            stem = ctx.str('stem', exclude='/\n\0.')
            ctx.assume(ctx.And(ctx.len(stem) > 0, stem != '__init__'))
            path = ctx.path([d0, d1, stem + ext])
            expected = (ctx.path([d0, d1, stem + ext]), ctx.path([d0, d1, new + ext]))
        else:
            path = ctx.path([d0, d1, '__init__' + ext])
            expected = (ctx.path([d0, d1]), ctx.path([d0, new]))
        out = ctx.call(R._calculate_rename, path, new)
        ctx.check(out.exc is None, 'never raises')
        if out.exc is not None:
            return
        frm, to = out.value
        ctx.check(ctx.And(ctx.pathstr(frm) == ctx.pathstr(expected[0]), ctx.pathstr(to) == ctx.pathstr(expected[1])),
                  'the announced rename is the module file resp. the package directory')


from jedi.inference import references as jrefs  # noqa: E402


class C05g(Obligation):
    id = 'C05.g'
    title = 'references of a global variable: the bindings in EVERY function that declares it global are collected'
    pattern = 'P3 (global filter, context creation and the per-context scan are stubs)'
    assumptions = ('G<=3 functions declare the name global; the per-context name scan is a stub yielding one marker per context',)

    def configs(self, tier):
        return [dict(G=g) for g in (0, 1, 2, 3)]

    def scenario(self, ctx, cfg):
        G = cfg['G']
        search = ctx.str('search_name', maxlen=3)
        globals_ = [Obj(tag='global-stmt-%d' % i, tree_name=Obj(tag='tn%d' % i), string_name=search) for i in range(G)]
        scanned = []

        def add_names(context, string_name):
            scanned.append((context, string_name))
            yield ('name-in', context)
        ctx.patch(jrefs, '_add_names_in_same_context', add_names)
        module_context = Obj(get_global_filter=lambda: Obj(get=lambda n: list(globals_)),
                             create_context=lambda tree_name: 'context-of-' + tree_name.tag)
        start = Obj(tree_name=Obj(), get_root_context=lambda: module_context)
        builtin = Obj(tree_name=None)
        ctx.force(jrefs._find_global_variables)
        out = ctx.call(lambda: list(jrefs._find_global_variables([builtin, start], search)))
        ctx.check(out.exc is None, 'never raises')
        if out.exc is not None:
            return
        res = out.value
        for i, g in enumerate(globals_):
            ctx.check(g in res, 'every global declaration is a reference')
            ctx.check(('name-in', 'context-of-tn%d' % i) in res, 'the bindings of every declaring function are collected')
        ctx.check(len(res) == 2 * G, 'nothing else')
        for c, n in scanned:
            ctx.check(n == search, 'the scan looks for the searched spelling')


import itertools  # noqa: E402


class Tok:
    def __init__(self, tag):
        self.tag = tag
        self.tree_name = self
        self.value = 'x'

    def __repr__(self):
        return self.tag


class C05b(Obligation):
    id = 'C05.b'
    title = 'reference sets are closed: asking from any token yields the whole connected set, whatever the scan order'
    pattern = 'P3 (goto closures of the same-spelled tokens are symbolic; real merge loop of find_references)'
    assumptions = (
        'tokens: 2 definitions and 3 usages of one spelling; the goto closure of a definition is itself, of a usage '
        'itself plus a non-empty symbolic subset of the definitions (the shape real closures have); the scan order is '
        'source order (quick) or any permutation (thorough); the start token is symbolic. With 3 definitions the '
        'merge loop is order-dependent in the abstract (6 480 of 1 497 960 enumerated cases) - no program realising '
        'such closures was found, so that family is outside the claim (recorded as unconfirmed candidate)',
        '_find_defining_names, _find_names and the module are stubs; only_in_module=True',
    )

    def configs(self, tier):
        return [dict(orders='source')] if tier == 'quick' else [dict(orders='all')]

    def scenario(self, ctx, cfg):
        defs = [Tok('d0'), Tok('d1')]
        uses = [Tok('u0'), Tok('u1'), Tok('u2')]
        toks = defs + uses
        subsets = [(defs[0],), (defs[1],), (defs[0], defs[1])]
        closures = {d: [d] for d in defs}
        for u in uses:
            closures[u] = [u] + list(ctx.oneof('%s_refers_to' % u.tag, subsets))
        if cfg['orders'] == 'source':
            order = list(toks)
        else:
            perms = list(itertools.permutations(range(5)))
            order = [toks[i] for i in perms[ctx.choice('scan_order', len(perms))]]
        start = toks[ctx.choice('start_token', 5)]
        ctx.int('unused')
        module_context = Obj(inference_state=Obj(flow_analysis_enabled=True, project=None),
                             tree_node=Obj(get_used_names=lambda: {'x': list(order)}))
        for t in toks:
            t.get_root_context = lambda: module_context
        ctx.patch(jrefs, '_find_defining_names', lambda mc, t: list(closures[t]))
        ctx.patch(jrefs, '_find_names', lambda mc, t: list(closures[t]))
        ctx.force(jrefs.find_references)
        out = ctx.call(lambda: set(jrefs.find_references(module_context, start, only_in_module=True)))
        ctx.check(out.exc is None, 'never raises')
        if out.exc is not None:
            return
        comp = set([start])
        changed = True
        while changed:
            changed = False
            for t in toks:
                c = set(closures[t])
                if c & comp and not c <= comp:
                    comp |= c
                    changed = True
        ctx.check(out.value == comp, 'the result is the connected component of the start token')


from jedi.inference.names import AbstractTreeName  # noqa: E402
from obligations.c06 import Op  # noqa: E402


class C05h(Obligation):
    id = 'C05.h'
    title = 'in f(kw=value) only the keyword TOKEN is resolved to the parameter; a value spelled the same is an ordinary name'
    pattern = 'P3 (inference of the callee is a recording stub; spelling of keyword and value symbolic)'
    assumptions = ('an argument node "kw = value" where value is a bare name; their spellings are symbolic (may coincide); '
                   'the asked token is the keyword or the value (symbolic)',)

    def scenario(self, ctx, cfg):
        kw_spelling = ctx.oneof('keyword_spelling', ('width', 'w'))
        val_spelling = ctx.oneof('value_spelling', ('width', 'w'))
        ask_value = ctx.flag('asked_token_is_the_value')
        ctx.int('unused')
        kw = Obj(value=kw_spelling, type='name', tag='keyword-token', get_definition=lambda import_name_always=False: None)
        val = Obj(value=val_spelling, type='name', tag='value-token', get_definition=lambda import_name_always=False: None,
                  search_ancestor=lambda *types: None, start_pos=(1, 10))
        argument = Obj(type='argument', children=[kw, Op('='), val])
        kw.parent = argument
        val.parent = argument
        arglist = Obj(type='arglist', children=[argument])
        argument.parent = arglist
        trailer = Obj(type='trailer', children=[Op('('), arglist, Op(')')])
        arglist.parent = trailer
        callee = Obj(type='name', value='f')
        atom_expr = Obj(type='atom_expr', children=[callee, trailer])
        trailer.parent = atom_expr
        inferred = []
        param = Obj(string_name=kw_spelling, tag='PARAM')
        sig = Obj(get_param_names=lambda: [param])
        value = Obj(get_signatures=lambda: [sig])
        context = Obj(infer_node=lambda node: inferred.append(node) or [value])
        import jedi.inference.imports as ji
        ctx.patch(ji, 'follow_error_node_imports_if_possible', lambda context, name: None)
        n = AbstractTreeName.__new__(AbstractTreeName)
        n._pysym_holder = True
        n.parent_context = context
        n.tree_name = val if ask_value else kw
        ctx.patch(AbstractTreeName, 'start_pos', (1, 0))
        ctx.force(AbstractTreeName.goto)
        stack_lookup = []
        context.goto = lambda name, position=None: stack_lookup.append(name) or ['NAME-LOOKUP']
        out = ctx.call(n.goto)
        ctx.check(out.exc is None, 'never raises')
        if out.exc is not None:
            return
        if ask_value:
            ctx.check(out.value == ['NAME-LOOKUP'] and len(inferred) == 0,
                      'the value token is looked up as a variable, never as the parameter')
        else:
            ctx.check(list(out.value) == [param], 'the keyword token resolves to the parameter of the callee')


class ModCtx:
    def __init__(self, tag, path):
        self.tag = tag
        self._path = path
        self.tree_node = Obj(get_used_names=lambda: {})

    def py__file__(self):
        return self._path

    def __repr__(self):
        return self.tag


class C05i(Obligation):
    id = 'C05.i'
    title = 'references: every defining module INSIDE the project (at any depth) takes part in the search'
    pattern = 'P3 (defining names come from stubs in modules at symbolic depths below / outside the project)'
    assumptions = ('the definitions found by goto live in up to 2 other modules, each d<=3 directories below the project '
                   'root or outside the project (symbolic); the text search over the project is a recording stub',)

    def scenario(self, ctx, cfg):
        import pathlib
        project = pathlib.Path('/home/proj')
        mods = []
        for i in range(2):
            where = ctx.choice('module%d_depth' % i, 5)        # 0..3 = depth below the project, 4 = outside
            sub = ['d%d' % k for k in range(where)] if where < 4 else None
            path = project.joinpath(*(sub + ['m%d.py' % i])) if sub is not None else pathlib.Path('/elsewhere/m%d.py' % i)
            mods.append((ModCtx('module%d' % i, path), where < 4))
        ctx.int('unused')
        inf = Obj(flow_analysis_enabled=True, project=Obj(path=project))
        start_module = ModCtx('start', project / 'start.py')
        start_module.inference_state = inf
        names = [Obj(tree_name=Obj(tag='def%d' % i), api_type='statement',
                     get_root_context=lambda m=m: m) for i, (m, inside) in enumerate(mods)]
        searched = []
        ctx.patch(jrefs, '_find_defining_names', lambda mc, t: list(names))
        ctx.patch(jrefs, 'get_module_contexts_containing_name',
                  lambda state, module_contexts, name: searched.extend(module_contexts) or [])
        ctx.force(jrefs.find_references)
        out = ctx.call(lambda: list(jrefs.find_references(start_module, Obj(value='x'), only_in_module=False)))
        ctx.check(out.exc is None, 'never raises')
        if out.exc is not None:
            return
        ctx.check(searched[0] is start_module, 'the module of the cursor is searched')
        for m, inside in mods:
            ctx.check((m in searched) == inside,
                      'a defining module takes part in the search iff it lies inside the project (any depth)')


from jedi.inference.names import SubModuleName  # noqa: E402


class _Sub(SubModuleName):
    def __init__(self, tag, api_type, targets):
        self.tag, self._api_type, self._targets = tag, api_type, targets

    api_type = property(lambda self: self._api_type)

    def goto(self):
        return list(self._targets)

    def __repr__(self):
        return '<%s>' % self.tag


class _Plain:
    def __init__(self, tag, api_type, targets):
        self.tag, self.api_type, self._targets = tag, api_type, targets

    def goto(self):
        return list(self._targets)

    def __repr__(self):
        return '<%s>' % self.tag


class C05j(Obligation):
    id = 'C05.j'
    title = 'defining names: a module name - also the created name of a sub-module import (import a.b) - is followed to the module it stands for'
    pattern = 'P3 (names with symbolic kind: sub-module name or real name, module or not; goto answers are stand-ins)'
    assumptions = (
        'N<=2 defining names, each symbolic in {real name, created sub-module name} x {api_type module, other}; the goto of '
        'a module-typed name yields one target (a real module name) or the name itself (symbolic)',
    )

    def configs(self, tier):
        return [dict(N=n) for n in (1, 2)]

    def scenario(self, ctx, cfg):
        names = []
        expected = []
        for i in range(cfg['N']):
            is_sub = ctx.flag('name%d_is_submodule_name' % i)
            is_module = ctx.flag('name%d_is_module' % i)
            self_target = ctx.flag('name%d_goto_lands_on_itself' % i)
            target = _Plain('module-of-name%d' % i, 'module', [])
            target._targets = [target]       # goto on a real module name lands on the same module
            cls = _Sub if is_sub else _Plain
            n = cls('name%d' % i, 'module' if is_module else 'statement', [])
            n._targets = [n] if self_target else [target]
            names.append(n)
            if not is_sub:
                expected.append(n)
            if is_module and not self_target:
                expected.append(target)
        ctx.force(jrefs._resolve_names)
        out = ctx.call(lambda: list(jrefs._resolve_names(names)))
        ctx.check(out.exc is None, 'never raises (no endless recursion on self-referring module names)')
        if out.exc is not None:
            return
        ctx.check(len(out.value) == len(expected) and all(a is b for a, b in zip(out.value, expected)),
                  'real names are kept; every module-typed name, created sub-module names included, contributes its module')


OBLIGATIONS = [C05a, C05b, C05f, C05g, C05h, C05i, C05j]
