"""C05 - Rename rewrites exactly the references and preserves behaviour (map => text kernels)."""
import parso

from vf.ob import Obligation, Obj

from jedi.api import refactoring as R
from jedi.api.exceptions import RefactoringError

GRAMMAR = parso.load_grammar()


class Leaf:
    """stand-in for a parso leaf: prefix (whitespace/comments before it) and value"""
    _pysym_holder = True
    type = 'name'

    def __init__(self, prefix, value):
        self.prefix = prefix
        self.value = value


class Def:
    _pysym_holder = True

    def __init__(self, tree_name, path, type_='statement'):
        self._name = Obj(tree_name=tree_name)
        self.module_path = path
        self.type = type_


class C05a(Obligation):
    id = 'C05.a'
    title = 'rename: exactly the reported tokens are rewritten, every other byte is kept; renaming back restores the text'
    pattern = 'P1 (real rename + parso RefactoringNormalizer over a flat token list with symbolic text)'
    interpret_modules = ('jedi', 'parso', 'obligations')
    assumptions = (
        'the module is a flat list of k<=4 tokens with symbolic prefix and value (<=4 chars each); which tokens '
        'get_references reported is a symbolic subset; reported tokens are spelled like the old name',
    )

    def configs(self, tier):
        return [dict(k=k) for k in ((1, 2, 3) if tier == 'quick' else (1, 2, 3, 4, 5))]

    def scenario(self, ctx, cfg):
        k = cfg['k']
        old = ctx.str('old_name', maxlen=4)
        new = ctx.str('new_name', maxlen=4)
        leaves = []
        reported = []
        for i in range(k):
            prefix = ctx.str('prefix%d' % i, maxlen=4)
            is_ref = ctx.flag('token%d_reported' % i)
            value = old if is_ref else ctx.str('value%d' % i, maxlen=4)
            leaf = Leaf(prefix, value)
            leaves.append(leaf)
            if is_ref:
                reported.append(leaf)
        module = Obj(type='file_input', children=leaves, get_root_node=lambda: module)
        for l in leaves:
            l.get_root_node = lambda: module
        import pathlib
        path = pathlib.Path('/proj/mod.py')
        state = Obj(grammar=GRAMMAR, project=Obj(path=pathlib.Path('/proj')))
        defs = [Def(l, path) for l in reported]
        out = ctx.call(R.rename, state, defs, new)
        if not reported:
            ctx.check(out.raised(RefactoringError), 'nothing to rename => RefactoringError')
            return
        ctx.check(out.exc is None, 'rename builds a refactoring')
        if out.exc is not None:
            return
        ref = out.value
        ctx.check(len(ref.get_renames()) == 0, 'renaming a variable renames no file')
        files = ctx.run(ref.get_changed_files)
        ctx.check(len(files) == 1, 'one changed file')
        cf = list(files.values())[0]
        out2 = ctx.call(cf.get_new_code)
        ctx.check(out2.exc is None, 'get_new_code never raises')
        if out2.exc is not None:
            return
        expected = ''
        original = ''
        for l in leaves:
            expected = expected + l.prefix + (new if l in reported else l.value)
            original = original + l.prefix + l.value
        ctx.check(out2.value == expected, 'exactly the reported tokens are replaced, all other text is kept byte for byte')
        # rename back on the same token set
        back = ctx.run(R.rename, state, defs, old)
        cf2 = list(ctx.run(back.get_changed_files).values())[0]
        ctx.check(ctx.run(cf2.get_new_code) == original, 'renaming back restores the original text')


class C05f(Obligation):
    id = 'C05.f'
    title = 'renaming a module / package announces exactly dir/new+suffix resp. dir.parent/new'
    pattern = 'P1'
    assumptions = ('module path: 2 directory components and a file name built from a symbolic stem and one of .py/.pyi; '
                   'or an __init__ file (package)',)

    def configs(self, tier):
        return [dict(kind=k) for k in ('module', 'package')]

    def scenario(self, ctx, cfg):
        d0, d1 = ctx.component('dir0'), ctx.component('dir1')
        new = ctx.component('new_name')
        ext = ctx.oneof('ext', ('.py', '.pyi'))
        if cfg['kind'] == 'module':
            stem = ctx.str('stem', exclude='/\n\0.')
            ctx.assume(ctx.And(ctx.len(stem) > 0, stem != '__init__'))
            path = ctx.path([d0, d1, stem + ext])
            expected = (ctx.path([d0, d1, stem + ext]), ctx.path([d0, d1, new + ext]))
        else:
            path = ctx.path([d0, d1, '__init__' + ext])
            expected = (ctx.path([d0, d1]), ctx.path([d0, new]))
        out = ctx.call(R._calculate_rename, path, new)
        ctx.check(out.exc is None, 'never raises')
        if out.exc is not None:
            return
        frm, to = out.value
        ctx.check(ctx.And(ctx.pathstr(frm) == ctx.pathstr(expected[0]), ctx.pathstr(to) == ctx.pathstr(expected[1])),
                  'the announced rename is the module file resp. the package directory')


OBLIGATIONS = [C05a, C05f]
