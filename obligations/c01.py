"""C01 - Query API is total on any source text and cursor position."""
from vf.ob import Obligation, Obj

from jedi.api import helpers


def _target(self, line, column, *args, **kwargs):
    return ('called', line, column)


EOLS = ('\n', '\r\n', '\r')


def code_lines(ctx, K, maxlen):
    """K strings shaped like parso.split_lines(code, keepends=True): a body without line breaks
    followed by one of \\n, \\r\\n, \\r - except the last line, which has no terminator"""
    lines = []
    for i in range(K):
        body = ctx.str('body%d' % i, maxlen=maxlen, exclude='\n\r')
        if i < K - 1:
            body = body + ctx.oneof('eol%d' % i, EOLS)
        lines.append(body)
    return lines


def visible_len(ctx, l):
    """length of the line without its \\n or \\r\\n terminator (the columns a cursor may take)"""
    n = ctx.len(l)
    return ctx.ite(l.endswith('\r\n'), n - 2, ctx.ite(l.endswith('\n'), n - 1, n))


class C01a(Obligation):
    id = 'C01.a'
    title = 'position contract: ValueError exactly for positions outside the text, nothing else'
    pattern = 'P1 kernel vs reference model'
    assumptions = (
        'code lines have the shape parso.split_lines(keepends=True) produces (parso trusted)',
        'the wrapped query is a stub returning its (line, column)',
    )

    def configs(self, tier):
        ks = (1, 2, 3) if tier == 'quick' else (1, 2, 3, 4, 5)
        return [dict(K=k, maxlen=64) for k in ks]

    def scenario(self, ctx, cfg):
        K = cfg['K']
        lines = code_lines(ctx, K, cfg['maxlen'])
        line = None if ctx.flag('line_is_none') else ctx.int('line')
        column = None if ctx.flag('column_is_none') else ctx.int('column')
        script = Obj(_code_lines=lines)
        wrapper = helpers.validate_line_column(_target)
        out = ctx.call(wrapper, script, line, column)

        # reference: which positions are inside the text
        eff_line = K if line is None else line
        line_ok = ctx.And(1 <= eff_line, eff_line <= K)
        inside = False
        exp_col = 0
        for i in range(K):
            vis = visible_len(ctx, lines[i])
            col_i = vis if column is None else column
            here = ctx.And(eff_line == i + 1, 0 <= col_i, col_i <= vis)
            inside = ctx.Or(inside, here)
            exp_col = ctx.ite(eff_line == i + 1, col_i, exp_col)
        ctx.check(ctx.Or(out.exc is None, out.raised(ValueError)), 'only ValueError may escape')
        ctx.check(ctx.iff(out.raised(ValueError), ctx.Not(ctx.And(line_ok, inside))),
                  'ValueError iff outside')
        if out.exc is None:
            tag, got_line, got_col = out.value
            ctx.check(ctx.And(got_line == eff_line, got_col == exp_col),
                      'the query receives the normalised position')


OBLIGATIONS = [C01a]
