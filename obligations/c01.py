"""C01 - Query API is total on any source text and cursor position."""
from vf.ob import Obligation, Obj

from jedi.api import helpers


def _target(self, line, column, *args, **kwargs):
    return ('called', line, column)


EOLS = ('\n', '\r\n', '\r')


def code_lines(ctx, K, maxlen):
    """K strings shaped like parso.split_lines(code, keepends=True): a body without line breaks
    followed by one of \\n, \\r\\n, \\r - except the last line, which has no terminator"""
    lines = []
    for i in range(K):
        body = ctx.str('body%d' % i, maxlen=maxlen, exclude='\n\r')
        if i < K - 1:
            body = body + ctx.oneof('eol%d' % i, EOLS)
        lines.append(body)
    return lines


def visible_len(ctx, l):
    """length of the line without its \\n or \\r\\n terminator (the columns a cursor may take)"""
    n = ctx.len(l)
    return ctx.ite(l.endswith('\r\n'), n - 2, ctx.ite(l.endswith('\n'), n - 1, n))


class C01a(Obligation):
    id = 'C01.a'
    title = 'position contract: ValueError exactly for positions outside the text, nothing else'
    pattern = 'P1 kernel vs reference model'
    assumptions = (
        'code lines have the shape parso.split_lines(keepends=True) produces (parso trusted)',
        'the wrapped query is a stub returning its (line, column)',
    )

    def configs(self, tier):
        ks = (1, 2, 3) if tier == 'quick' else (1, 2, 3, 4, 5)
        return [dict(K=k, maxlen=64) for k in ks]

    def scenario(self, ctx, cfg):
        K = cfg['K']
        lines = code_lines(ctx, K, cfg['maxlen'])
        line = None if ctx.flag('line_is_none') else ctx.int('line')
        column = None if ctx.flag('column_is_none') else ctx.int('column')
        script = Obj(_code_lines=lines)
        wrapper = helpers.validate_line_column(_target)
        out = ctx.call(wrapper, script, line, column)

        # reference: which positions are inside the text
        eff_line = K if line is None else line
        line_ok = ctx.And(1 <= eff_line, eff_line <= K)
        inside = False
        exp_col = 0
        for i in range(K):
            vis = visible_len(ctx, lines[i])
            col_i = vis if column is None else column
            here = ctx.And(eff_line == i + 1, 0 <= col_i, col_i <= vis)
            inside = ctx.Or(inside, here)
            exp_col = ctx.ite(eff_line == i + 1, col_i, exp_col)
        ctx.check(ctx.Or(out.exc is None, out.raised(ValueError)), 'only ValueError may escape')
        ctx.check(ctx.iff(out.raised(ValueError), ctx.Not(ctx.And(line_ok, inside))),
                  'ValueError iff outside')
        if out.exc is None:
            tag, got_line, got_col = out.value
            ctx.check(ctx.And(got_line == eff_line, got_col == exp_col),
                      'the query receives the normalised position')


import jedi  # noqa: E402
from jedi.api import completion as jcompletion  # noqa: E402
from jedi.inference import imports as jimports  # noqa: E402

BROKEN = [
    'foo(1, "abc', 
    'x = [1, (2,\n  y.',
    'def f(a, b=\n  return a.\n',
    'class C(:\n  x = {1: \'q\n',
    'print(f"{a!r:>{w}} {",\n',
    'a = b if c else\nimport os.\nfrom . import (x,\n',
    'lambda x=(1,: x ** **\n)]}\n@dec(1,\ndef',
    'r\'\'\'text\n more (text\n',
    'f(a)(b=1, *c, **\n',
    'x.y(1)[2].z(k=\n\t3, \n',
    # nested comprehensions (anonymous scopes inside anonymous scopes), complete and cut off
    'def table(rows):\n    return [[c for c in row] for row in rows]\npairs = {a: [b for b in a] for a in q\n',
    # statements separated by ";" inside error nodes, imports inside error nodes
    'other = value; )\ndef func(arg):\n    arg; )\n    return arg\n',
    'import a.b; from c import (d; x = 1; ]\nfrom . import y; import (\n',
]

FUNCTIONS = ('completion_name', 'signature_details', 'string_prefix', 'context', 'error_imports')


class C01b(Obligation):
    id = 'C01.b'
    title = 'the position-driven API layer is total: no internal exception for any in-range cursor on broken code'
    pattern = 'P4 concrete (broken) tree x symbolic cursor'
    interpret_modules = ('jedi', 'parso', 'obligations')
    loop_bound = 400
    max_paths = 6000
    assumptions = (
        'a corpus of broken / half-typed snippets is parsed natively by parso (error recovery trusted); (line, column) '
        'are symbolic integers constrained to the text (the position contract is C01.a); the interpreter forks on every '
        'comparison of helpers.get_on_completion_name / get_signature_details (+ CallDetails accessors) / '
        'completion._extract_string_while_in_string / Script.get_context and parso.get_leaf_for_position; '
        'slicing the concrete text at the symbolic column forks over the columns, so regexes run natively',
    )

    def configs(self, tier):
        which = (0, 5, 10, 11, 12) if tier == 'quick' else range(len(BROKEN))
        # following imports in error nodes only concerns identifiers: a snippet without a single name token is skipped
        def has_name(src):
            leaf = jedi.Script(src)._module_node.get_first_leaf()
            while leaf is not None:
                if leaf.type == 'name':
                    return True
                leaf = leaf.get_next_leaf()
            return False
        return [dict(snippet=i, fn=f) for i in which for f in FUNCTIONS if f != 'error_imports' or has_name(BROKEN[i])]

    def scenario(self, ctx, cfg):
        src = BROKEN[cfg['snippet']]
        script = jedi.Script(src)
        module, lines = script._module_node, script._code_lines
        K = len(lines)
        line = ctx.int('line', 1, K)
        column = ctx.int('column', 0)
        text = lines[line - 1]
        visible = len(text.rstrip('\r\n')) if text.endswith('\n') else len(text)
        ctx.assume(column <= visible)
        pos = (line, column)
        fn = cfg['fn']
        if fn == 'completion_name':
            out = ctx.call(helpers.get_on_completion_name, module, lines, pos)
            ctx.check(out.exc is None, 'get_on_completion_name never raises')
            if out.exc is None:
                before = text[:column]
                ctx.check(before.endswith(out.value), 'the fragment is the text directly in front of the cursor')
        elif fn == 'signature_details':
            out = ctx.call(helpers.get_signature_details, module, pos)
            ctx.check(out.exc is None, 'get_signature_details never raises')
            if out.exc is None and out.value is not None:
                d = out.value
                ctx.check(d.bracket_leaf == '(' and d.bracket_leaf.start_pos < pos, 'the bracket is a "(" before the cursor')
                acc = ctx.call(lambda: (d.index, d.keyword_name_str, d.count_positional_arguments(),
                                        list(d.iter_used_keyword_arguments()), d.calculate_index([])))
                ctx.check(acc.exc is None, 'the accessors of the call details never raise')
        elif fn == 'string_prefix':
            leaf = ctx.run(module.get_leaf_for_position, pos, include_prefixes=True)
            out = ctx.call(jcompletion._extract_string_while_in_string, leaf, pos)
            ctx.check(out.exc is None, '_extract_string_while_in_string never raises')
        elif fn == 'error_imports':
            leaf = ctx.run(module.get_leaf_for_position, pos)
            if leaf is None or leaf.type != 'name':
                return
            followed = []
            ctx.patch(jimports, 'Importer', lambda state, names, module_context, level=0:
                      Obj(follow=lambda: followed.append((tuple(n.value for n in names), level)) or []))
            context = Obj(inference_state=None, get_root_context=lambda: None)
            ctx.force(jimports.follow_error_node_imports_if_possible)
            out = ctx.call(jimports.follow_error_node_imports_if_possible, context, leaf)
            ctx.check(out.exc is None, 'imports inside error nodes: looking at any name of a broken statement never raises')
        else:
            ctx.force(jedi.Script.get_context, jedi.Script.get_context.__wrapped__)
            out = ctx.call(script.get_context, line, column)
            ctx.check(out.exc is None, 'get_context never raises inside the text')


COMPLETION_CORPUS = [
    'if a:\n    pass\nel',
    'total = box.value offset\nif x:\n    y\n',
    'a.b c\ntry:\n    f(1) 2\nexc',
    'for i in x:\n    i.\nimport os.\nfrom a import (b, ',
    'def f(a, b=1, *, c):\n    return lambda q: q.\nclass K(f(1, ',
    'with open(p) as fh, g() as \n    x = {1: [2, (3, ',
]


class C01e(Obligation):
    id = 'C01.e'
    title = 'completion front end is total: grammar-stack analysis of any broken buffer at any cursor never raises'
    pattern = 'P4 concrete (broken) tree x symbolic cursor; the inference sinks of completion are stubs'
    interpret_modules = ('jedi', 'parso', 'obligations')
    loop_bound = 400
    max_paths = 6000
    assumptions = (
        'Completion._complete_python is executed with the real parso stack machinery (get_stack_at_position re-parses '
        'the text before the cursor natively once the symbolic column has been forked into a concrete one); the sinks '
        'that need type inference (_complete_global_scope, _complete_trailer, _complete_inherited, _get_importer_names, '
        '_complete_params, _complete_keywords, signatures) are stubs returning nothing',
    )

    def configs(self, tier):
        n = 3 if tier == 'quick' else len(COMPLETION_CORPUS)
        return [dict(snippet=i) for i in range(n)]

    def scenario(self, ctx, cfg):
        src = COMPLETION_CORPUS[cfg['snippet']]
        script = jedi.Script(src)
        module, lines = script._module_node, script._code_lines
        line = ctx.int('line', 1, len(lines))
        column = ctx.int('column', 0)
        text = lines[line - 1]
        ctx.assume(column <= (len(text.rstrip('\r\n')) if text.endswith('\n') else len(text)))
        pos = (line, column)
        comp = jcompletion.Completion.__new__(jcompletion.Completion)
        comp._pysym_holder = True
        comp._inference_state = Obj(grammar=script._inference_state.grammar)
        comp._module_context = None
        comp._module_node = module
        comp._code_lines = lines
        comp._original_position = pos
        comp._signatures_callback = lambda l, c: []
        comp._fuzzy = False
        comp._like_name = ctx.run(helpers.get_on_completion_name, module, lines, pos)
        comp._complete_global_scope = lambda: []
        comp._complete_inherited = lambda is_function=True: []
        comp._get_importer_names = lambda names, level=0, only_modules=True: []
        comp._complete_trailer = lambda previous_leaf: (None, [])
        comp._complete_params = lambda leaf: []
        comp._complete_keywords = lambda allowed, only_values: []
        leaf = ctx.run(module.get_leaf_for_position, pos, include_prefixes=True)
        ctx.force(jcompletion.Completion._complete_python, jcompletion.Completion._is_parameter_completion)
        out = ctx.call(comp._complete_python, leaf)
        ctx.check(out.exc is None, '_complete_python never raises')


from obligations.c10 import C10b  # noqa: E402
from obligations.c18 import C18c  # noqa: E402


class C01f(C10b):
    id = 'C01.f'
    title = 'totality: constructing the importer for ANY relative import (also beyond the top-level package, also without names) never raises'


class C01g(C18c):
    id = 'C01.g'
    title = 'totality of result objects: Name.parent() always yields a usable Name (nested comprehension scopes)'


OBLIGATIONS = [C01a, C01b, C01e, C01f, C01g]
