"""C13 - Interpreter safe mode: the decision kernels (thin)."""
from vf.ob import Obligation, Obj

from jedi.inference.compiled import value as jvalue
from jedi.inference.compiled import access as jaccess
from jedi.inference.compiled.value import CompiledValueFilter
from jedi.inference.compiled.access import DirectObjectAccess


class C13a(Obligation):
    id = 'C13.a'
    title = 'safe-mode name lookup: a descriptor hit never becomes a name whose inference calls getattr'
    pattern = 'P5 decision table (all environment answers symbolic)'
    assumptions = (
        'the answers of is_allowed_getattr / dir / annotation execution are symbolic booleans; name objects are '
        'tagged stubs: "empty" (inference never touches the object) or "real"',
    )

    def configs(self, tier):
        return [dict(annotation=a) for a in ('none', 'no_values', 'values')]

    def scenario(self, ctx, cfg):
        has_attribute = ctx.bool('has_attribute')
        is_descriptor = ctx.bool('is_descriptor')
        allow_unsafe = ctx.bool('allow_unsafe_executions')
        is_instance = ctx.bool('is_instance')
        in_dir = ctx.bool('in_dir')
        check_has = ctx.bool('check_has_attribute')
        annotation = None if cfg['annotation'] == 'none' else 'ANNOTATION'
        values = ['V'] if cfg['annotation'] == 'values' else []
        ctx.patch(jvalue, 'create_from_access_path',
                  lambda state, path: Obj(execute_annotation=lambda arg: list(values)))
        ctx.patch(jvalue, 'CompiledValueName', lambda v, name: ('annotation-name', v, name))
        flt = CompiledValueFilter.__new__(CompiledValueFilter)
        flt._pysym_holder = True
        flt._inference_state = Obj(allow_unsafe_executions=allow_unsafe)
        flt.compiled_value = None
        flt.is_instance = is_instance
        flt._get_cached_name = lambda name, is_empty=False, is_descriptor=False: \
            ('empty', name) if is_empty else ('real', name, is_descriptor)
        out = ctx.call(flt._get, 'attr', lambda name: (has_attribute, is_descriptor, annotation),
                       lambda name: in_dir, check_has_attribute=check_has)
        ctx.check(out.exc is None, 'never raises')
        if out.exc is not None:
            return
        res = out.value
        for n in res:
            if n[0] == 'real':
                ctx.check(ctx.Or(allow_unsafe, ctx.And(has_attribute, ctx.Not(is_descriptor))),
                          'safe mode: a real (getattr-backed) name only for a plain, existing attribute')
        if cfg['annotation'] != 'values':
            ctx.check(ctx.implies(ctx.And(is_descriptor, ctx.Not(allow_unsafe), has_attribute),
                                  len(res) == 1 and res[0][0] == 'empty'),
                      'safe mode: a descriptor hit is the empty name')
            ctx.check(ctx.implies(ctx.And(has_attribute, ctx.Or(in_dir, ctx.Not(is_instance))), len(res) == 1),
                      'an existing attribute listed by dir() yields a name')
            ctx.check(ctx.implies(ctx.And(check_has, ctx.Not(has_attribute)), len(res) == 0),
                      'a missing attribute yields nothing')
        else:
            ctx.check(len(res) == 1 and res[0][0] == 'annotation-name',
                      'an annotated property is answered from its annotation, without execution')


class UserDescriptor:
    def __get__(self, obj, owner):
        raise AssertionError('user __get__ executed')


class Probe:
    """object whose attribute protocol records any dynamic access"""
    def __init__(self, log):
        object.__setattr__(self, '_log', log)

    def __getattr__(self, name):
        if name.startswith('_pysym'):       # the checking machinery's own marker lookups
            raise AttributeError(name)
        object.__getattribute__(self, '_log').append(name)
        raise AttributeError(name)


def _annotated(self) -> int:
    return 1


def _plain(self):
    return 1


ATTR_KINDS = ('missing', 'plain_value', 'function', 'user_descriptor', 'property_plain', 'property_annotated')


class C13b(Obligation):
    id = 'C13.b'
    title = 'is_allowed_getattr: non-whitelisted get-descriptors are reported as descriptors; safe mode never calls hasattr'
    pattern = 'P5 (getattr_static outcome is a stub)'
    assumptions = ('getattr_static is a stub returning the chosen attribute kind; agreement of getattr_static with '
                   'CPython attribute lookup is NOT decided',)

    def configs(self, tier):
        return [dict(kind=k) for k in ATTR_KINDS]

    def scenario(self, ctx, cfg):
        kind = cfg['kind']
        safe = ctx.flag('safe')
        log = []
        attrs = {'plain_value': (42, False), 'function': (_plain, True),
                 'user_descriptor': (UserDescriptor(), True),
                 'property_plain': (property(_plain), True),
                 'property_annotated': (property(_annotated), True)}

        def getattr_static(obj, name):
            if kind == 'missing':
                raise AttributeError(name)
            return attrs[kind]

        ctx.patch(jaccess, 'getattr_static', getattr_static)
        ctx.patch(DirectObjectAccess, 'get_return_annotation', lambda self: 'ANNOTATION-PATH')
        acc = DirectObjectAccess.__new__(DirectObjectAccess)
        acc._inference_state = None
        acc._obj = Probe(log)
        ctx.force(DirectObjectAccess.is_allowed_getattr)
        ctx.int('unused')
        out = ctx.call(acc.is_allowed_getattr, 'attr', safe=safe)
        ctx.check(out.exc is None, 'never raises')
        if out.exc is not None:
            return
        has, is_desc, annotation = out.value
        if safe:
            ctx.check(len(log) == 0, 'safe mode performs no dynamic attribute access (no hasattr)')
        if kind in ('user_descriptor', 'property_plain', 'property_annotated'):
            ctx.check(has is True and is_desc is True, 'a get-descriptor outside the whitelist is reported as a descriptor')
        elif kind in ('plain_value', 'function'):
            ctx.check(has is True and is_desc is False, 'plain values and whitelisted descriptors may be read')
        else:
            ctx.check(is_desc is False and (has is False or not safe), 'missing attribute')
        if kind not in ('property_annotated', 'property_plain'):
            ctx.check(annotation is None, 'no annotation path without a property')
        else:
            ctx.check(annotation == 'ANNOTATION-PATH', 'a property reports the return annotation of its getter (not its value)')


OBLIGATIONS = [C13a, C13b]
