"""C13 - Interpreter safe mode: the decision kernels (thin)."""
from vf.ob import Obligation, Obj

from jedi.inference.compiled import value as jvalue
from jedi.inference.compiled import access as jaccess
from jedi.inference.compiled.value import CompiledValueFilter
from jedi.inference.compiled.access import DirectObjectAccess


class C13a(Obligation):
    id = 'C13.a'
    title = 'safe-mode name lookup: a descriptor hit never becomes a name whose inference calls getattr'
    pattern = 'P5 decision table (all environment answers symbolic)'
    assumptions = (
        'the answers of is_allowed_getattr / dir / annotation execution are symbolic booleans; name objects are '
        'tagged stubs: "empty" (inference never touches the object) or "real"',
    )

    def configs(self, tier):
        return [dict(annotation=a) for a in ('none', 'no_values', 'values')]

    def scenario(self, ctx, cfg):
        has_attribute = ctx.bool('has_attribute')
        is_descriptor = ctx.bool('is_descriptor')
        allow_unsafe = ctx.bool('allow_unsafe_executions')
        is_instance = ctx.bool('is_instance')
        in_dir = ctx.bool('in_dir')
        check_has = ctx.bool('check_has_attribute')
        annotation = None if cfg['annotation'] == 'none' else 'ANNOTATION'
        values = ['V'] if cfg['annotation'] == 'values' else []
        ctx.patch(jvalue, 'create_from_access_path',
                  lambda state, path: Obj(execute_annotation=lambda arg: list(values)))
        ctx.patch(jvalue, 'CompiledValueName', lambda v, name: ('annotation-name', v, name))
        flt = CompiledValueFilter.__new__(CompiledValueFilter)
        flt._pysym_holder = True
        flt._inference_state = Obj(allow_unsafe_executions=allow_unsafe)
        flt.compiled_value = None
        flt.is_instance = is_instance
        flt._get_cached_name = lambda name, is_empty=False, is_descriptor=False: \
            ('empty', name) if is_empty else ('real', name, is_descriptor)
        out = ctx.call(flt._get, 'attr', lambda name: (has_attribute, is_descriptor, annotation),
                       lambda name: in_dir, check_has_attribute=check_has)
        ctx.check(out.exc is None, 'never raises')
        if out.exc is not None:
            return
        res = out.value
        for n in res:
            if n[0] == 'real':
                ctx.check(ctx.Or(allow_unsafe, ctx.And(has_attribute, ctx.Not(is_descriptor))),
                          'safe mode: a real (getattr-backed) name only for a plain, existing attribute')
        if cfg['annotation'] != 'values':
            ctx.check(ctx.implies(ctx.And(is_descriptor, ctx.Not(allow_unsafe), has_attribute),
                                  len(res) == 1 and res[0][0] == 'empty'),
                      'safe mode: a descriptor hit is the empty name')
            ctx.check(ctx.implies(ctx.And(has_attribute, ctx.Or(in_dir, ctx.Not(is_instance))), len(res) == 1),
                      'an existing attribute listed by dir() yields a name')
            ctx.check(ctx.implies(ctx.And(check_has, ctx.Not(has_attribute)), len(res) == 0),
                      'a missing attribute yields nothing')
        else:
            ctx.check(len(res) == 1 and res[0][0] == 'annotation-name',
                      'an annotated property is answered from its annotation, without execution')


class UserDescriptor:
    def __get__(self, obj, owner):
        raise AssertionError('user __get__ executed')


class Probe:
    """object whose attribute protocol records any dynamic access"""
    def __init__(self, log):
        object.__setattr__(self, '_log', log)

    def __getattr__(self, name):
        if name.startswith('_pysym'):       # the checking machinery's own marker lookups
            raise AttributeError(name)
        object.__getattribute__(self, '_log').append(name)
        raise AttributeError(name)


def _annotated(self) -> int:
    return 1


def _plain(self):
    return 1


ATTR_KINDS = ('missing', 'plain_value', 'function', 'user_descriptor', 'property_plain', 'property_annotated')


class C13b(Obligation):
    id = 'C13.b'
    title = 'is_allowed_getattr: non-whitelisted get-descriptors are reported as descriptors; safe mode never calls hasattr'
    pattern = 'P5 (getattr_static outcome is a stub)'
    assumptions = ('getattr_static is a stub returning the chosen attribute kind; agreement of getattr_static with '
                   'CPython attribute lookup is NOT decided',)

    def configs(self, tier):
        return [dict(kind=k) for k in ATTR_KINDS]

    def scenario(self, ctx, cfg):
        kind = cfg['kind']
        safe = ctx.flag('safe')
        log = []
        attrs = {'plain_value': (42, False), 'function': (_plain, True),
                 'user_descriptor': (UserDescriptor(), True),
                 'property_plain': (property(_plain), True),
                 'property_annotated': (property(_annotated), True)}

        def getattr_static(obj, name):
            if kind == 'missing':
                raise AttributeError(name)
            return attrs[kind]

        ctx.patch(jaccess, 'getattr_static', getattr_static)
        ctx.patch(DirectObjectAccess, 'get_return_annotation', lambda self: 'ANNOTATION-PATH')
        acc = DirectObjectAccess.__new__(DirectObjectAccess)
        acc._inference_state = None
        acc._obj = Probe(log)
        ctx.force(DirectObjectAccess.is_allowed_getattr)
        ctx.int('unused')
        out = ctx.call(acc.is_allowed_getattr, 'attr', safe=safe)
        ctx.check(out.exc is None, 'never raises')
        if out.exc is not None:
            return
        has, is_desc, annotation = out.value
        if safe:
            ctx.check(len(log) == 0, 'safe mode performs no dynamic attribute access (no hasattr)')
        if kind in ('user_descriptor', 'property_plain', 'property_annotated'):
            ctx.check(has is True and is_desc is True, 'a get-descriptor outside the whitelist is reported as a descriptor')
        elif kind in ('plain_value', 'function'):
            ctx.check(has is True and is_desc is False, 'plain values and whitelisted descriptors may be read')
        else:
            ctx.check(is_desc is False and (has is False or not safe), 'missing attribute')
        if kind not in ('property_annotated', 'property_plain'):
            ctx.check(annotation is None, 'no annotation path without a property')
        else:
            ctx.check(annotation == 'ANNOTATION-PATH', 'a property reports the return annotation of its getter (not its value)')


from jedi.inference.compiled import getattr_static as jgs  # noqa: E402


class Meta(type):
    """a custom metaclass (as abc.ABCMeta is)"""


def make_descriptor_class(has_set, has_delete, log, custom_metaclass=False):
    ns = {'__get__': lambda self, obj, owner: log.append('__get__ executed') or 1}
    if has_set:
        ns['__set__'] = lambda self, obj, value: None
    if has_delete:
        ns['__delete__'] = lambda self, obj: None
    return (Meta if custom_metaclass else type)('Desc', (object,), ns)


class C13c(Obligation):
    id = 'C13.c'
    title = 'static attribute lookup follows Python precedence: data descriptors beat the instance dict, and nothing is executed'
    pattern = 'P5 decision table over descriptor kinds (reflection code interpreted on concrete classes chosen by symbolic flags)'
    assumptions = ('the object graph is one class with one descriptor attribute (with/without __set__/__delete__) and '
                   'an optional same-named instance dict entry; C-level reflection (type.__dict__) is CPython\'s',)

    def scenario(self, ctx, cfg):
        has_set = ctx.flag('descriptor_has___set__')
        has_delete = ctx.flag('descriptor_has___delete__')
        shadowed = ctx.flag('instance_dict_has_same_name')
        meta = ctx.flag('descriptor_class_has_a_custom_metaclass')
        ctx.int('unused')
        log = []
        D = make_descriptor_class(has_set, has_delete, log, meta)
        d = D()
        Owner = type('Owner', (object,), {'attr': d})
        obj = Owner()
        if shadowed:
            obj.__dict__['attr'] = 'instance value'
        ctx.force(jgs.getattr_static, jgs._safe_is_data_descriptor, jgs._safe_hasattr)
        out = ctx.call(jgs.getattr_static, obj, 'attr')
        ctx.check(out.exc is None, 'never raises')
        ctx.check(len(log) == 0, 'the lookup itself executes no user code')
        if out.exc is not None:
            return
        value, is_get_descriptor = out.value
        is_data = has_set or has_delete
        if shadowed and not is_data:
            ctx.check(value == 'instance value' and is_get_descriptor is False,
                      'a non-data descriptor is shadowed by the instance dict (plain value, safe to read)')
        else:
            ctx.check(value is d and is_get_descriptor is True,
                      'a data descriptor wins over the instance dict and is reported as a get-descriptor (never read in safe mode)')


class UserDict(dict):
    log = []

    def __getitem__(self, key):
        UserDict.log.append(key)
        return 1


class UserList(list):
    def __getitem__(self, key):
        UserDict.log.append(key)
        return 1


class C13d(Obligation):
    id = 'C13.d'
    title = 'safe mode never calls a user-defined __getitem__ (exact builtin container types only)'
    pattern = 'P5 decision table over container kinds'
    assumptions = ('containers: dict, list, tuple, str, a dict subclass and a list subclass overriding __getitem__',)

    def configs(self, tier):
        return [dict(kind=k) for k in ('dict', 'list', 'tuple', 'str', 'dict_subclass', 'list_subclass')]

    def scenario(self, ctx, cfg):
        del UserDict.log[:]
        kind = cfg['kind']
        obj = {'dict': {0: 'v'}, 'list': ['v'], 'tuple': ('v',), 'str': 'v',
               'dict_subclass': UserDict({0: 'v'}), 'list_subclass': UserList(['v'])}[kind]
        safe = ctx.flag('safe')
        ctx.int('unused')
        acc = DirectObjectAccess.__new__(DirectObjectAccess)
        acc._inference_state = None
        acc._obj = obj
        acc._create_access_path = lambda o: ('PATH', o)
        ctx.force(DirectObjectAccess.py__simple_getitem__)
        out = ctx.call(acc.py__simple_getitem__, 0, safe=safe)
        ctx.check(out.exc is None, 'never raises')
        user = kind.endswith('subclass')
        if safe and user:
            ctx.check(out.value is None and len(UserDict.log) == 0, 'safe mode: user __getitem__ is not called, no value')
        elif not user:
            ctx.check(out.value == ('PATH', 'v') and len(UserDict.log) == 0, 'builtin containers are indexed')
        else:
            ctx.check(len(UserDict.log) == 1, 'unsafe mode may execute it')


class IterDict(dict):
    """a dict subclass whose iteration protocol is user code (and lies about the keys)"""
    log = []

    def __iter__(self):
        IterDict.log.append('__iter__')
        return iter(['not-a-key'])

    def __len__(self):
        IterDict.log.append('__len__')
        return 0

    def __bool__(self):
        IterDict.log.append('__bool__')
        return False


class C13e(Obligation):
    id = 'C13.e'
    title = 'listing the keys of a dict-like object (completion inside obj["...) never runs a user-defined __iter__/__next__/__len__/__bool__ and lists the real keys'
    pattern = 'P5 decision table over dict kinds x number of keys'
    assumptions = ('objects: a plain dict and a dict subclass overriding __iter__/__len__/__bool__, holding n<=3 or 60 keys (symbolic); '
                   'the 50-keys cut-off is part of the expected answer',)

    def scenario(self, ctx, cfg):
        del IterDict.log[:]
        user = ctx.flag('dict_subclass_with_user_iteration')
        n = ctx.oneof('n_keys', (0, 1, 2, 3, 60))
        ctx.int('unused')
        keys = ['key%d' % i for i in range(n)]
        obj = (IterDict if user else dict)((k, i) for i, k in enumerate(keys))
        acc = DirectObjectAccess.__new__(DirectObjectAccess)
        acc._inference_state = None
        acc._obj = obj
        acc._create_access_path = lambda o: ('PATH', o)
        ctx.force(DirectObjectAccess.get_key_paths)
        out = ctx.call(acc.get_key_paths)
        ctx.check(out.exc is None, 'never raises')
        ctx.check(IterDict.log == [], 'no user-defined __iter__/__len__/__bool__ runs')
        if out.exc is None:
            ctx.check(out.value == [('PATH', k) for k in keys[:51]], 'the real keys are listed, in order, at most 51 of them')


OBLIGATIONS = [C13a, C13b, C13c, C13d, C13e]
