"""C08 - Answers do not depend on the editing history of a buffer (derived caches)."""
import re

from vf.ob import Obligation, Obj
from pysym.interp import register_model
from pysym.core import Opaque
from pysym import models

from jedi import cache as jcache
from jedi import settings
from jedi import parser_utils
from jedi.api import helpers
from jedi.inference import filters as jfilters

from obligations.c01 import code_lines


class Tok:
    def __init__(self, tag, is_def):
        self._tag = tag
        self._is_def = is_def

    def is_definition(self, include_setitem=False):
        return self._is_def


def used_names(ctx, version, n):
    """name table of one tree version: key -> tokens (each a definition or not, symbolic)"""
    return {
        'x': [Tok('v%d-x%d' % (version, i), ctx.flag('v%d_x%d_is_def' % (version, i))) for i in range(n)],
        'y': [Tok('v%d-y0' % version, ctx.flag('v%d_y0_is_def' % version))],
    }


def definitions(names, key):
    return tuple(t for t in names.get(key, ()) if t._is_def)


class C08a(Obligation):
    id = 'C08.a'
    title = 'definition-name cache: keyed on the tree version, never serves names of another version'
    pattern = 'P2 one step from an arbitrary cache state satisfying "entry == recomputation on its own tree"'
    assumptions = (
        'parso replaces the cache-entry object on every re-parse (object identity = tree version); '
        'is_definition() of each token is a symbolic boolean; <=2 tokens per name',
    )

    def configs(self, tier):
        return [dict(n=n) for n in ((1, 2) if tier == 'quick' else (1, 2, 3))]

    def scenario(self, ctx, cfg):
        cache = {}
        ctx.patch(jfilters, '_definition_name_cache', cache)
        ctx.force(jfilters._get_definition_names)
        v1 = used_names(ctx, 1, cfg['n'])
        v2 = used_names(ctx, 2, cfg['n'])
        N1, N2 = Obj(tag='entry-v1'), Obj(tag='entry-v2')
        # pre-state: version 1 may have been asked about each key before
        cache[N1] = {}
        for key in ('x', 'y'):
            if ctx.flag('v1_%s_cached' % key):
                cache[N1][key] = definitions(v1, key)
        which = ctx.oneof('query_entry', ('v1', 'v2', 'none'))
        key = ctx.oneof('query_key', ('x', 'y', 'z'))
        entry, table = {'v1': (N1, v1), 'v2': (N2, v2), 'none': (None, v2)}[which]
        out = ctx.call(jfilters._get_definition_names, entry, table, key)
        ctx.check(out.exc is None, 'never raises')
        if out.exc is not None:
            return
        expected = definitions(table, key)
        ctx.check(len(out.value) == len(expected) and all(a is b for a, b in zip(out.value, expected)),
                  'the answer is the recomputation on the CURRENT tree version')
        if which != 'v1':
            ctx.check(all(not t._tag.startswith('v1') for t in out.value), 'no token of the old version surfaces')
        if which == 'none':
            ctx.check(N2 not in cache and len(cache) == 1, 'a buffer without cache entry is never cached')


class C08b(Obligation):
    id = 'C08.b'
    title = 'parent-scope cache: keyed on the tree version and the node'
    pattern = 'P2'
    assumptions = ('the wrapped get_parent_scope is a stub returning a per-version marker',)

    def scenario(self, ctx, cfg):
        calls = []

        def compute(node, include_flows=False):
            calls.append(node)
            return ('scope-of', node.tag)
        cached = parser_utils._get_parent_scope_cache(compute)
        ctx.force(cached)
        N1, N2 = Obj(tag='entry-v1'), Obj(tag='entry-v2')
        node1, node2 = Obj(tag='node-v1'), Obj(tag='node-v2')
        ctx.int('unused')
        if ctx.flag('v1_asked_before'):
            ctx.run(cached, N1, node1)
        del calls[:]
        which = ctx.oneof('query_entry', ('v1', 'v2', 'none'))
        entry, node = {'v1': (N1, node1), 'v2': (N2, node2), 'none': (None, node2)}[which]
        out = ctx.call(cached, entry, node)
        ctx.check(out.exc is None and out.value == ('scope-of', node.tag), 'the scope of the node of the current tree version')
        if which != 'v1':
            ctx.check(calls == [node], 'a new tree version is recomputed, not served from the old one')
        out2 = ctx.call(cached, entry, node)
        ctx.check(out2.exc is None and out2.value == ('scope-of', node.tag), 'asking again gives the same answer')


class MatchModel(Opaque):
    """result of re.match(r'.*\\(', s, DOTALL): compares by identity; group(0) is the text up to the last '(' """

    def __init__(self, s):
        Opaque.__init__(self, 'match')
        self._s = s

    def group(self, n=0):
        from pysym.core import engine, SStr, mk_str
        import z3
        eng = engine()
        g, rest = eng.new_str('_matched'), eng.new_str('_after_match')
        eng.add(z3.And(models.z(self._s) == z3.Concat(g.e, rest.e), z3.SuffixOf(z3.StringVal('('), g.e),
                       z3.Not(z3.Contains(rest.e, z3.StringVal('(')))))
        return g


def _re_match_model(I, args, kw):
    """re.match(r'.*\\(', s, re.DOTALL): an opaque match object iff s contains '(' (DOTALL: any text before it)"""
    if not I.symarg(args):
        return NotImplemented
    pat, s = args[0], args[1]
    if pat == r'.*\(' and len(args) == 3 and args[2] == re.DOTALL:
        if bool(models.str_contains(s, '(')) if not isinstance(models.str_contains(s, '('), bool) \
                else models.str_contains(s, '('):
            return MatchModel(s)
        return None
    return NotImplemented


register_model(re.match, _re_match_model)


class C08c(Obligation):
    id = 'C08.c'
    title = 'signature cache key always contains the (identity-compared) match of the call text, so no two buffers share a key'
    pattern = 'P1 (key construction over symbolic code lines and positions)'
    assumptions = (
        'K<=3 code lines of split_lines shape; the bracket leaf is a "(" at a symbolic position, the cursor anywhere after it',
        're.match(r".*\\(", text, DOTALL) is modelled as: a fresh match object iff the text contains "("; '
        'a re.Match compares by identity, so a key containing one is never equal to an earlier key',
    )
    findings = {'C08-multiline-key': 'call whose opening bracket is on an earlier line than the cursor'}

    def configs(self, tier):
        return [dict(K=k) for k in ((1, 2) if tier == 'quick' else (1, 2, 3))]

    def scenario(self, ctx, cfg):
        K = cfg['K']
        lines = code_lines(ctx, K, 6)
        bl = ctx.choice('bracket_line', K)          # 0-based
        bc = ctx.int('bracket_col', 0)
        ctx.assume(lines[bl][bc:bc + 1] == '(')
        cl = bl + ctx.choice('cursor_line_offset', K - bl)
        cc = ctx.int('cursor_col', 0)
        ctx.assume(cc <= ctx.len(lines[cl]))
        if cl == bl:
            ctx.assume(cc > bc)
        bracket_leaf = Obj(start_pos=(bl + 1, bc), get_previous_leaf=lambda: None)
        context = Obj(get_root_context=lambda: Obj(py__file__=lambda: '/buffer.py'))
        ctx.patch(helpers, 'infer', lambda *a: 'SIGNATURES')
        key_func = helpers.cache_signatures.__closure__
        raw = [c.cell_contents for c in key_func if callable(c.cell_contents)][0]
        ctx.force(raw)

        def first_key():
            return next(raw(None, context, bracket_leaf, lines, (cl + 1, cc)))
        out = ctx.call(first_key)
        ctx.check(out.exc is None, 'key construction never raises')
        if out.exc is not None:
            return
        key = out.value
        ctx.check(key is not None and key[0] == '/buffer.py' and key[2] == (bl + 1, bc), 'key names the file and the bracket')
        if key is not None:
            ctx.check(key[1] is not None, 'the key contains the match object of the text up to the bracket',
                      known={'C08-multiline-key': cl > bl})
            ctx.check(not models.is_strlike(key[1]),
                      'that component compares by identity (a re.Match), never by text: no two queries share a key')


class Clock:
    def __init__(self, times):
        self.times = list(times)

    def time(self):
        return self.times.pop(0)


class C08d(Obligation):
    id = 'C08.d'
    title = 'time cache: a value is served only for an equal key that has not expired; key None is never stored'
    pattern = 'P3 (symbolic non-decreasing clock)'
    assumptions = (
        'clock readings are arbitrary non-decreasing integers; call_signatures_validity is the integer 3 for this '
        'check (floats are not modelled); keys are drawn from {None, "K1", "K2"}',
    )

    def scenario(self, ctx, cfg):
        ctx.patch(jcache, '_time_caches', {})
        ctx.patch(settings, 'call_signatures_validity', 3)
        t = [ctx.int('t%d' % i, 0) for i in range(4)]
        for i in range(3):
            ctx.assume(t[i] <= t[i + 1])
        clock = Clock(t)
        ctx.patch(jcache, 'time', clock)
        computed = []

        def key_func(key, version):
            yield key
            computed.append(version)
            yield ('value', version)
        cached = jcache.signature_time_cache('call_signatures_validity')(key_func)
        ctx.force(cached)
        k1 = ctx.oneof('key1', (None, 'K1', 'K2'))
        k2 = ctx.oneof('key2', (None, 'K1', 'K2'))
        out1 = ctx.call(cached, k1, 1)
        ctx.check(out1.exc is None and out1.value == ('value', 1), 'first call computes')
        used1 = 4 - len(clock.times)
        stored_at = t[used1 - 1] if k1 is not None else None
        out2 = ctx.call(cached, k2, 2)
        ctx.check(out2.exc is None, 'second call succeeds')
        if out2.exc is not None:
            return
        if out2.value == ('value', 1):
            now = t[used1]
            ctx.check(k1 is not None and k1 == k2, 'a cached value is served only for an equal, non-None key')
            if stored_at is not None:
                ctx.check(now < stored_at + 3, 'and only before it expires')
        else:
            ctx.check(out2.value == ('value', 2) and computed == [1, 2], 'otherwise the value is recomputed')


from obligations.c15 import C15a3  # noqa: E402


class C08e(C15a3):
    id = 'C08.e'
    title = 'execution budgets spent by an earlier Script never leak into a later one (per-Script detector state)'


import os as _os  # noqa: E402
import pathlib as _pathlib  # noqa: E402

import jedi as _jedi  # noqa: E402
import jedi.api as _japi  # noqa: E402
from jedi import settings as _settings  # noqa: E402


class C08f(Obligation):
    id = 'C08.f'
    title = 'constructing a Script: the text analysed is the text given (or the file as it is NOW), never a tree from the on-disk cache; time caches are cleared; the inference state learns the ABSOLUTE location'
    pattern = 'P3 (Script.__init__ with InferenceState / open / get_default_project as recording stubs; how code and path are given is symbolic)'
    assumptions = (
        'code is given or read from the path (symbolic); the path is absent, a relative str, an absolute str or a Path, '
        'with suffix .py or .pyi (symbolic); settings.fast_parser is a symbolic flag; the parse itself is a stub that '
        'records its arguments',
    )

    def scenario(self, ctx, cfg):
        code_given = ctx.flag('code_given')
        path_kind = ctx.choice('path_kind', 5)       # 0 none, 1 relative str, 2 absolute str, 3 relative Path, 4 absolute Path
        pyi = ctx.flag('stub_file')
        fast = ctx.flag('fast_parser')
        ctx.int('unused')
        name = 'pkg/mod.pyi' if pyi else 'pkg/mod.py'
        raw = [None, name, '/abs/' + name, _pathlib.Path(name), _pathlib.Path('/abs/' + name)][path_kind]
        absolute = None if raw is None else _pathlib.Path(_os.path.abspath(str(raw)))
        ctx.patch(_settings, 'fast_parser', fast)
        states = []
        parses = []

        class State:
            def __init__(self, project, environment=None, script_path=None):
                states.append((project, script_path))

            def parse_and_get_code(self, **kw):
                parses.append(kw)
                return 'TREE', kw['code'] if isinstance(kw['code'], str) else kw['code'].decode()
        ctx.patch(_japi, 'InferenceState', State)
        asked_project = []
        ctx.patch(_japi, 'get_default_project', lambda p=None: asked_project.append(p) or 'DEFAULT-PROJECT')
        opened = []

        class FH:
            def __enter__(self):
                return self

            def __exit__(self, *a):
                return False

            def read(self):
                return b'text_on_disk = 1\n'
        ctx.patch(_japi, 'open', lambda p, mode='r': opened.append((p, mode)) or FH())
        cleared = []
        ctx.patch(_japi, 'cache', Obj(clear_time_caches=lambda *a: cleared.append(1)))
        ctx.force(_jedi.Script.__init__)
        script = _jedi.Script.__new__(_jedi.Script)
        script._pysym_holder = True
        out = ctx.call(_jedi.Script.__init__, script, 'given = 2\n' if code_given else None, path=raw)
        if not code_given and raw is None:
            ctx.check(out.raised(ValueError), 'neither code nor path: ValueError')
            return
        ctx.check(out.exc is None, 'never raises')
        if out.exc is not None:
            return
        ctx.check(script.path == absolute and states == [('DEFAULT-PROJECT', absolute)],
                  'Script.path and the script location of the inference state are the absolute path (None without path)')
        ctx.check(asked_project == [None if absolute is None else absolute.parent], 'the default project is looked for from the absolute folder')
        ctx.check(len(parses) == 1, 'the text is parsed once')
        if len(parses) == 1:
            kw = parses[0]
            ctx.check(kw['cache'] is False, 'the tree never comes from / goes to the on-disk cache: the text at hand is parsed')
            ctx.check(kw['diff_cache'] == fast and kw['path'] == absolute and bool(kw['use_latest_grammar']) == (raw is not None and pyi),
                      'incremental parsing follows settings.fast_parser; path and grammar choice follow the file')
            want = 'given = 2\n' if code_given else b'text_on_disk = 1\n'
            ctx.check(kw['code'] == want and (code_given or len(opened) == 1), 'the text is the given one, else the file content read now')
        ctx.check(len(cleared) == 1, 'the time caches are cleared')
        ctx.check(script._code == ('given = 2\n' if code_given else 'text_on_disk = 1\n'), 'Script keeps the analysed text')


from jedi.inference import parser_cache as _parser_cache  # noqa: E402


class _FuncNode:
    """a funcdef node that the diff parser kept (same object) while its body changed"""

    def __init__(self):
        self.yields = []

    def iter_yield_exprs(self):
        return iter(list(self.yields))


class C08g(Obligation):
    id = 'C08.g'
    title = 'facts derived from the tree (the yield expressions of a function) are memoised per inference state only: a new Script never sees what an earlier Script derived from an earlier version of the SAME node'
    pattern = 'P2 (two inference states, one reused node whose body changes in between; numbers of yields symbolic)'
    assumptions = (
        'the incremental parser reuses the funcdef node object across versions (its def line is unchanged) while the yields '
        'in its body change: n1, n2 <= 3 (symbolic); each Script has its own inference state with an empty memoize_cache',
    )

    def scenario(self, ctx, cfg):
        n1 = ctx.choice('yields_in_version1', 4)
        n2 = ctx.choice('yields_in_version2', 4)
        ctx.int('unused')
        node = _FuncNode()
        node.yields = ['v1-yield%d' % i for i in range(n1)]
        state1 = Obj(memoize_cache={}, tag='state-of-script1')
        state2 = Obj(memoize_cache={}, tag='state-of-script2')
        first = ctx.call(_parser_cache.get_yield_exprs, state1, node)
        node.yields = ['v2-yield%d' % i for i in range(n2)]          # the edit
        second = ctx.call(_parser_cache.get_yield_exprs, state2, node)
        ctx.check(first.exc is None and second.exc is None, 'never raises')
        if first.exc is None and second.exc is None:
            ctx.check(list(first.value) == ['v1-yield%d' % i for i in range(n1)], 'version 1 is answered from version 1')
            ctx.check(list(second.value) == ['v2-yield%d' % i for i in range(n2)],
                      'a later Script answers from the CURRENT body of the node, whatever an earlier Script memoised')


OBLIGATIONS = [C08a, C08b, C08c, C08d, C08e, C08f, C08g]
