"""C17 - Every reported source position is faithful to the text (projection kernels, thin)."""
from vf.ob import Obligation, Obj

from jedi.api import classes, helpers

from obligations.c01 import code_lines


class NameStub:
    _pysym_holder = True
    is_value_name = True

    def __init__(self, start_pos, lines):
        self.start_pos = start_pos
        self._lines = lines
        self.tree_name = None

    def get_root_context(self):
        return Obj(code_lines=self._lines)


def base_name(name):
    n = classes.BaseName.__new__(classes.BaseName)
    n._pysym_holder = True
    n._inference_state = None
    n._name = name
    n.is_keyword = False
    return n


class C17a(Obligation):
    id = 'C17.a'
    title = 'line/column are the start position of the underlying name; None stays None'
    pattern = 'P1'
    assumptions = ('the underlying name carries start_pos = None or (line, column)',)

    def scenario(self, ctx, cfg):
        if ctx.flag('has_pos'):
            line, col = ctx.int('line'), ctx.int('col')
            n = base_name(NameStub((line, col), None))
            ctx.check(ctx.And(ctx.run(classes.BaseName.line.fget, n) == line,
                              ctx.run(classes.BaseName.column.fget, n) == col), '(line, column) == start_pos')
        else:
            n = base_name(NameStub(None, None))
            ctx.check(n.line is None and n.column is None, 'no position => None, None')


class C17b(Obligation):
    id = 'C17.b'
    title = 'get_line_code returns the contiguous window [line-before, line+after] and contains the line itself'
    pattern = 'P1 kernel vs reference'
    assumptions = ('K<=4 (thorough 6) code lines of symbolic content; 1<=line<=K; before, after >= 0 unbounded',)

    def configs(self, tier):
        return [dict(K=k) for k in ((1, 2, 3) if tier == 'quick' else (1, 2, 3, 4, 5))]

    def scenario(self, ctx, cfg):
        K = cfg['K']
        lines = code_lines(ctx, K, 8)
        line = ctx.int('line', 1, K)
        before = ctx.int('before', 0)
        after = ctx.int('after', 0)
        n = base_name(NameStub((line, ctx.int('col', 0)), lines))
        out = ctx.call(n.get_line_code, before, after)
        ctx.check(out.exc is None, 'never raises')
        if out.exc is not None:
            return
        # reference: concatenation of lines[max(i-before,0) .. min(i+after, K-1)]
        expected = ''
        for k in range(K):
            inside = ctx.And(k + 1 >= line - before, k + 1 <= line + after)
            expected = expected + ctx.ite(inside, lines[k], '')
        ctx.check(out.value == expected, 'the window of lines around the definition, in order')
        out0 = ctx.call(n.get_line_code)
        own = ''
        for k in range(K):
            own = own + ctx.ite(line == k + 1, lines[k], '')
        ctx.check(out0.exc is None and out0.value == own, 'before=after=0: exactly the line of the name')


class Tok:
    def __init__(self, is_def):
        self._is_def = is_def

    def is_definition(self):
        return self._is_def


class C17c(Obligation):
    id = 'C17.c'
    title = 'get_module_names: definitions+references keeps every token once; the two single flags are complementary'
    pattern = 'P5 decision table'
    assumptions = ('module.get_used_names() is a stub listing T<=3 tokens whose is_definition() is symbolic; all_scopes=True',)

    def configs(self, tier):
        return [dict(T=t) for t in (1, 2, 3)]

    def scenario(self, ctx, cfg):
        toks = [Tok(ctx.flag('tok%d_is_definition' % i)) for i in range(cfg['T'])]
        module = Obj(get_used_names=lambda: {'x': toks[:1], 'y': toks[1:]})
        ctx.int('unused')
        both = ctx.call(lambda: list(helpers.get_module_names(module, True, definitions=True, references=True)))
        defs = ctx.call(lambda: list(helpers.get_module_names(module, True, definitions=True, references=False)))
        refs = ctx.call(lambda: list(helpers.get_module_names(module, True, definitions=False, references=True)))
        none = ctx.call(lambda: list(helpers.get_module_names(module, True, definitions=False, references=False)))
        ctx.check(both.exc is None and defs.exc is None and refs.exc is None and none.exc is None, 'never raises')
        if both.exc is not None or defs.exc is not None or refs.exc is not None:
            return
        for t in toks:
            ctx.check(len([x for x in both.value if x is t]) == 1, 'both flags: every token exactly once')
            in_d = len([x for x in defs.value if x is t])
            in_r = len([x for x in refs.value if x is t])
            ctx.check(in_d + in_r == 1, 'definitions-only and references-only partition the tokens')
            ctx.check((in_d == 1) == t._is_def, 'definitions-only keeps exactly the binding tokens')
        ctx.check(len(both.value) == len(toks) and len(none.value) == 0, 'nothing else is reported')


import ast  # noqa: E402
import io  # noqa: E402
import keyword  # noqa: E402
import tokenize  # noqa: E402

import jedi  # noqa: E402
from jedi.inference.names import TreeNameDefinition  # noqa: E402

BINDING_CORPUS = [
    '''import os
from mod import thing

def func(a, b=1, *args, key=None, **kw):
    local = a + b
    table = {}
    table[a] = local
    table[b] += 1
    for i, item in enumerate(args):
        table[i], extra = item, i
    with open(a) as handle:
        handle.write(key)
    total = [n for n in args if n]
    total += [len(kw)]
    if (found := os.sep):
        return func(a=found, b=thing)
    return total

class Box(object):
    size = 3

    def grow(self, by):
        grown = self.size + by
        rows = [[0]]
        rows[0][0] = by
        return rows

result = Box()
''',
]


def binding_positions(src):
    """positions (line, col) of the identifier tokens that bind a name, according to CPython's ast"""
    tree = ast.parse(src)
    toks = [t for t in tokenize.generate_tokens(io.StringIO(src).readline) if t.type == tokenize.NAME]
    binds = set()
    for node in ast.walk(tree):
        if isinstance(node, ast.Name) and isinstance(node.ctx, ast.Store):
            binds.add((node.lineno, node.col_offset))
        elif isinstance(node, ast.arg):
            binds.add((node.lineno, node.col_offset))
        elif isinstance(node, (ast.FunctionDef, ast.AsyncFunctionDef, ast.ClassDef)):
            kw = [i for i, t in enumerate(toks) if t.start >= (node.lineno, node.col_offset)
                  and t.string in ('def', 'class')][0]
            binds.add(toks[kw + 1].start)
        elif isinstance(node, (ast.Import, ast.ImportFrom)):
            for alias in node.names:
                binds.add((alias.lineno, alias.col_offset))
    idents = [(t.start[0], t.start[1], t.end[1], t.string) for t in toks if not keyword.iskeyword(t.string)]
    return idents, binds


class C17d(Obligation):
    id = 'C17.d'
    title = 'is_definition() is true exactly for the identifier tokens that bind (subscript stores do not bind)'
    pattern = 'P4 concrete tree x symbolic cursor; reference from CPython ast'
    interpret_modules = ('jedi', 'parso', 'obligations')
    loop_bound = 400
    max_paths = 4000
    assumptions = (
        'a corpus file is parsed natively; (line, column) are unconstrained integers resolved to a token by the '
        'interpreted parso get_leaf_for_position; domain: positions on identifier tokens; binding tokens from ast '
        '(Store names, parameters, def/class names, import names); attribute stores, del and global are not in the corpus',
    )

    def scenario(self, ctx, cfg):
        src = BINDING_CORPUS[0]
        script = jedi.Script(src)
        line = ctx.int('line')
        column = ctx.int('column')
        idents, binds = binding_positions(src)
        # cursor semantics of parso: a position belongs to the token it is inside of or directly behind
        on = [ctx.And(line == l, c0 < column, column <= c1) for l, c0, c1, s in idents]
        ctx.assume(ctx.Or(*on))
        leaf = ctx.run(script._module_node.get_leaf_for_position, (line, column))
        ctx.check(leaf is not None and leaf.type == 'name', 'an identifier position resolves to a name token')
        if leaf is None or leaf.type != 'name':
            return
        name = classes.Name(script._inference_state, TreeNameDefinition(script._get_module_context(), leaf))
        out = ctx.call(name.is_definition)
        ctx.check(out.exc is None, 'never raises')
        if out.exc is not None:
            return
        expected = leaf.start_pos in binds
        ctx.observe((leaf.value, leaf.start_pos, out.value), 'token')
        ctx.check(out.value == expected, 'is_definition() <=> the token binds a name (ast)')


from obligations.c18 import C18d  # noqa: E402


class C17e(C18d):
    id = 'C17.e'
    title = 'every definition token (also *args / **kwargs and annotated parameters) reports the position at which the text is exactly its name'


class C17f(Obligation):
    id = 'C17.f'
    title = 'the definition range [start, end] encloses the name, whatever token the defining node ends with'
    pattern = 'P3 (defining node is a stub with symbolic leaf positions)'
    assumptions = ('the defining node ends either in a NEWLINE leaf (def/class blocks) or in the name token itself '
                   '(e.g. "from m import name" bound to a function); positions are symbolic and ordered as in source',)

    def scenario(self, ctx, cfg):
        kind = ctx.oneof('name_type', ('function', 'class', 'statement'))
        ends_in_newline = ctx.flag('definition_ends_in_newline_leaf')
        line = ctx.int('line', 1)
        name_col = ctx.int('name_start_column', 0)
        name_len = ctx.int('name_length', 1, 6)
        start_col = ctx.int('definition_start_column', 0)
        ctx.assume(start_col <= name_col)
        name_end = (line, name_col + name_len)
        if ends_in_newline:
            body_end_line = ctx.int('last_code_line', 1)
            ctx.assume(body_end_line >= line)
            prev_end_col = ctx.int('last_code_end_column', 0)
            ctx.assume(ctx.Or(body_end_line > line, prev_end_col >= name_col + name_len))
            prev = Obj(end_pos=(body_end_line, prev_end_col))
            last_leaf = Obj(type='newline', end_pos=(body_end_line + 1, 0), get_previous_leaf=lambda: prev)
            true_end = (body_end_line, prev_end_col)
        else:
            last_leaf = Obj(type='name', end_pos=name_end, get_previous_leaf=lambda: Obj(end_pos=(line, name_col - 1)))
            true_end = name_end
        definition = Obj(start_pos=(line, start_col), end_pos=true_end, get_last_leaf=lambda: last_leaf)
        tree_name = Obj(get_definition=lambda: definition, end_pos=name_end)
        n = base_name(Obj(tree_name=tree_name, start_pos=(line, name_col)))
        ctx.patch(classes.BaseName, 'type', kind)
        out_s = ctx.call(n.get_definition_start_position)
        out_e = ctx.call(n.get_definition_end_position)
        ctx.check(out_s.exc is None and out_e.exc is None, 'never raises')
        if out_s.exc is not None or out_e.exc is not None:
            return
        s0, e0 = out_s.value, out_e.value
        starts_before = ctx.Or(s0[0] < line, ctx.And(s0[0] == line, s0[1] <= name_col))
        ends_after = ctx.Or(e0[0] > line, ctx.And(e0[0] == line, e0[1] >= name_col + name_len))
        ctx.check(ctx.And(starts_before, ends_after), 'the definition range encloses the name')


import jedi.api as japi  # noqa: E402


class C17g(Obligation):
    id = 'C17.g'
    title = 'name enumeration is a function of its flags: on one Script every _names() call passes all three flags on and returns a fresh, position-sorted list - whatever was asked before'
    pattern = 'P2 (history of two calls with symbolic flags on the same Script; the enumeration itself is a recording stub)'
    assumptions = (
        'helpers.get_module_names is a stub that returns tokens encoding the flags it was called with (positions in '
        'reverse order); module_context.create_name is the identity; both calls use arbitrary (symbolic) flag values',
    )

    def scenario(self, ctx, cfg):
        flags = [[ctx.flag('call%d_%s' % (k, f)) for f in ('all_scopes', 'definitions', 'references')] for k in (1, 2)]
        asked = []

        def get_module_names(module, all_scopes, definitions=True, references=False):
            asked.append((module, all_scopes, definitions, references))
            key = (all_scopes, definitions, references)
            return [Obj(start_pos=(3, 0), key=key), Obj(start_pos=(1, 4), key=key), Obj(start_pos=(1, 0), key=key)]
        ctx.patch(japi.helpers, 'get_module_names', get_module_names)
        script = jedi.Script.__new__(jedi.Script)
        script._pysym_holder = True
        script._inference_state = Obj(reset_recursion_limitations=lambda: None)
        script._module_node = 'MODULE'
        script._get_module_context = lambda: Obj(create_name=lambda n: n)
        ctx.force(jedi.Script._names)
        outs = []
        for k in (0, 1):
            a, d, r = flags[k]
            outs.append(ctx.call(script._names, all_scopes=a, definitions=d, references=r))
        ctx.check(all(o.exc is None for o in outs), 'never raises')
        if any(o.exc is not None for o in outs):
            return
        for k in (0, 1):
            want = tuple(flags[k])
            got = outs[k].value
            ctx.check(len(got) == 3 and all(n.key == want for n in got),
                      'the names returned are those enumerated for the flags of THIS call')
            ctx.check([n.start_pos for n in got] == [(1, 0), (1, 4), (3, 0)], 'sorted by position')
        ctx.check(outs[0].value is not outs[1].value, 'each call returns its own list')


from jedi.inference.names import AbstractTreeName  # noqa: E402


class C17h(Obligation):
    id = 'C17.h'
    title = 'the reported name is the token text itself (no case folding, no unicode normalisation), so the text at line/column is exactly the name'
    pattern = 'P1 (string_name / get_public_name / Name.name over a symbolic token text)'
    assumptions = (
        'the token text is a symbolic string of length<=3 over an alphabet with ASCII letters and characters that NFKC, '
        'NFC and case mapping change (micro sign, fi ligature, fullwidth x, Angstrom sign, dotted capital I)',
    )

    def scenario(self, ctx, cfg):
        text = ctx.str('token_text', maxlen=3, alphabet='aX_\u00b5\ufb01\uff58\u212b\u0130')
        ctx.assume(ctx.len(text) > 0)
        leaf = Obj(value=text, start_pos=(2, 4), tag='name-token')
        n = TreeNameDefinition.__new__(TreeNameDefinition)
        n._pysym_holder = True
        n.tree_name = leaf
        n.parent_context = None
        ctx.force(AbstractTreeName.string_name.fget)
        out = ctx.call(lambda: (n.string_name, n.get_public_name()))
        ctx.check(out.exc is None, 'never raises')
        if out.exc is None:
            ctx.check(ctx.And(ctx.eq(out.value[0], text), ctx.eq(out.value[1], text)),
                      'string_name and the public name are the token text, character for character')
        api = classes.Name.__new__(classes.Name)
        api._pysym_holder = True
        api._name = n
        out2 = ctx.call(lambda: (api.name, api.line, api.column))
        ctx.check(out2.exc is None, 'never raises')
        if out2.exc is None:
            ctx.check(ctx.eq(out2.value[0], text) and out2.value[1:] == (2, 4), 'Name.name is the text found at Name.line/column')


OBLIGATIONS = [C17a, C17b, C17c, C17d, C17e, C17f, C17g, C17h]
