"""C17 - Every reported source position is faithful to the text (projection kernels, thin)."""
from vf.ob import Obligation, Obj

from jedi.api import classes, helpers

from obligations.c01 import code_lines


class NameStub:
    _pysym_holder = True
    is_value_name = True

    def __init__(self, start_pos, lines):
        self.start_pos = start_pos
        self._lines = lines
        self.tree_name = None

    def get_root_context(self):
        return Obj(code_lines=self._lines)


def base_name(name):
    n = classes.BaseName.__new__(classes.BaseName)
    n._pysym_holder = True
    n._inference_state = None
    n._name = name
    n.is_keyword = False
    return n


class C17a(Obligation):
    id = 'C17.a'
    title = 'line/column are the start position of the underlying name; None stays None'
    pattern = 'P1'
    assumptions = ('the underlying name carries start_pos = None or (line, column)',)

    def scenario(self, ctx, cfg):
        if ctx.flag('has_pos'):
            line, col = ctx.int('line'), ctx.int('col')
            n = base_name(NameStub((line, col), None))
            ctx.check(ctx.And(ctx.run(classes.BaseName.line.fget, n) == line,
                              ctx.run(classes.BaseName.column.fget, n) == col), '(line, column) == start_pos')
        else:
            n = base_name(NameStub(None, None))
            ctx.check(n.line is None and n.column is None, 'no position => None, None')


class C17b(Obligation):
    id = 'C17.b'
    title = 'get_line_code returns the contiguous window [line-before, line+after] and contains the line itself'
    pattern = 'P1 kernel vs reference'
    assumptions = ('K<=4 (thorough 6) code lines of symbolic content; 1<=line<=K; before, after >= 0 unbounded',)

    def configs(self, tier):
        return [dict(K=k) for k in ((1, 2, 3, 4) if tier == 'quick' else (1, 2, 3, 4, 5, 6))]

    def scenario(self, ctx, cfg):
        K = cfg['K']
        lines = code_lines(ctx, K, 8)
        line = ctx.int('line', 1, K)
        before = ctx.int('before', 0)
        after = ctx.int('after', 0)
        n = base_name(NameStub((line, ctx.int('col', 0)), lines))
        out = ctx.call(n.get_line_code, before, after)
        ctx.check(out.exc is None, 'never raises')
        if out.exc is not None:
            return
        # reference: concatenation of lines[max(i-before,0) .. min(i+after, K-1)]
        expected = ''
        for k in range(K):
            inside = ctx.And(k + 1 >= line - before, k + 1 <= line + after)
            expected = expected + ctx.ite(inside, lines[k], '')
        ctx.check(out.value == expected, 'the window of lines around the definition, in order')
        out0 = ctx.call(n.get_line_code)
        own = ''
        for k in range(K):
            own = own + ctx.ite(line == k + 1, lines[k], '')
        ctx.check(out0.exc is None and out0.value == own, 'before=after=0: exactly the line of the name')


class Tok:
    def __init__(self, is_def):
        self._is_def = is_def

    def is_definition(self):
        return self._is_def


class C17c(Obligation):
    id = 'C17.c'
    title = 'get_module_names: definitions+references keeps every token once; the two single flags are complementary'
    pattern = 'P5 decision table'
    assumptions = ('module.get_used_names() is a stub listing T<=3 tokens whose is_definition() is symbolic; all_scopes=True',)

    def configs(self, tier):
        return [dict(T=t) for t in (1, 2, 3)]

    def scenario(self, ctx, cfg):
        toks = [Tok(ctx.flag('tok%d_is_definition' % i)) for i in range(cfg['T'])]
        module = Obj(get_used_names=lambda: {'x': toks[:1], 'y': toks[1:]})
        ctx.int('unused')
        both = ctx.call(lambda: list(helpers.get_module_names(module, True, definitions=True, references=True)))
        defs = ctx.call(lambda: list(helpers.get_module_names(module, True, definitions=True, references=False)))
        refs = ctx.call(lambda: list(helpers.get_module_names(module, True, definitions=False, references=True)))
        none = ctx.call(lambda: list(helpers.get_module_names(module, True, definitions=False, references=False)))
        ctx.check(both.exc is None and defs.exc is None and refs.exc is None and none.exc is None, 'never raises')
        if both.exc is not None or defs.exc is not None or refs.exc is not None:
            return
        for t in toks:
            ctx.check(len([x for x in both.value if x is t]) == 1, 'both flags: every token exactly once')
            in_d = len([x for x in defs.value if x is t])
            in_r = len([x for x in refs.value if x is t])
            ctx.check(in_d + in_r == 1, 'definitions-only and references-only partition the tokens')
            ctx.check((in_d == 1) == t._is_def, 'definitions-only keeps exactly the binding tokens')
        ctx.check(len(both.value) == len(toks) and len(none.value) == 0, 'nothing else is reported')


OBLIGATIONS = [C17a, C17b, C17c]
