"""C15 - Inference gives up instead of recursing or exploding (each guard as an inductive step)."""
from vf.ob import Obligation, Obj
from pysym.models import SymDict

from jedi.inference import recursion
from jedi.inference.recursion import ExecutionRecursionDetector, execution_recursion_decorator


class ModuleCtx:
    _pysym_holder = True

    def __init__(self, builtins, name):
        self._builtins = builtins
        self._name = name

    def is_builtins_module(self):
        return self._builtins

    def py__name__(self):
        return self._name


class Execution:
    _pysym_holder = True

    def __init__(self, tree_node, module_ctx, inference_state):
        self.tree_node = tree_node
        self._module_ctx = module_ctx
        self.inference_state = inference_state

    def get_root_context(self):
        return self._module_ctx


def make_detector(ctx, n, m):
    """an arbitrary detector state satisfying the representation invariant:
    level == len(stack); 0 <= total count <= total limit; every per-function count within its limit.
    funcdefs are symbolic identities (ints)."""
    det = ExecutionRecursionDetector.__new__(ExecutionRecursionDetector)
    det._pysym_holder = True
    det._inference_state = None
    stack = [ctx.int('stack%d' % i, 0, 3) for i in range(n)]
    det._parent_execution_funcs = stack
    det._recursion_level = n
    counts = SymDict()
    keys = []
    for k in range(m):
        key = ctx.int('counted%d' % k, 0, 3)
        for other in keys:
            ctx.assume(key != other)
        keys.append(key)
        counts[key] = ctx.int('count%d' % k, 0, recursion.per_function_execution_limit)
    det._funcdef_execution_counts = counts
    det._execution_count = ctx.int('total', 0, recursion.total_function_execution_limit)
    return det


class C15a(Obligation):
    id = 'C15.a'
    title = 'execution budgets: one push from an arbitrary valid detector state keeps every budget'
    pattern = 'P2 inductive step'
    assumptions = (
        'pre-state: level == len(stack), 0 <= total <= total limit, per-function counts <= their limit '
        '(representation invariant; established by __init__ and preserved by this step)',
        'function definitions are abstract identities (4 distinct ones suffice: the code only compares them)',
        'limits are the values found in jedi.inference.recursion at run time',
    )

    def configs(self, tier):
        lim = recursion.recursion_limit
        ns = sorted(set([0, 1, 2, 3, lim - 1, lim, lim + 1])) if tier == 'quick' else range(0, lim + 3)
        return [dict(n=n, m=m) for n in ns for m in (0, 1, 2)]

    def scenario(self, ctx, cfg):
        n = cfg['n']
        det = make_detector(ctx, n, cfg['m'])
        f = ctx.int('funcdef', 0, 3)
        builtins = ctx.bool('is_builtins')
        modname = ctx.oneof('module_name', ('typing', 'other'))
        ex = Execution(f, ModuleCtx(builtins, modname), None)
        total0 = det._execution_count
        c0 = det._funcdef_execution_counts.get(f, 0)
        on_stack0 = det._parent_execution_funcs.count(f)

        out = ctx.call(det.push_execution, ex)
        ctx.check(out.exc is None, 'push_execution never raises')
        if out.exc is not None:
            return
        refused = out.value
        # representation invariant after the step
        ctx.check(det._recursion_level == n + 1, 'level counts the push')
        ctx.check(len(det._parent_execution_funcs) == n + 1, 'stack holds the push')
        ctx.check(det._parent_execution_funcs[-1] == f, 'top of stack is the pushed function')
        total1 = det._execution_count
        ctx.check(ctx.And(total1 <= recursion.total_function_execution_limit, total1 >= total0,
                          total1 <= total0 + 1), 'total count stays within the total limit, grows by <= 1')
        c1 = det._funcdef_execution_counts.get(f, 0)
        ctx.check(ctx.And(c1 <= recursion.per_function_execution_limit, c1 >= c0, c1 <= c0 + 1),
                  'per-function count stays within its limit')
        # the budgets: an admitted non-builtin execution is inside every limit
        admitted = ctx.Not(refused)
        exempt_typing = modname == 'typing'
        inside = ctx.And(n + 1 <= recursion.recursion_limit,
                         total0 < recursion.total_function_execution_limit,
                         ctx.Or(c0 < recursion.per_function_execution_limit, exempt_typing),
                         ctx.Or(on_stack0 + 1 <= recursion.per_function_recursion_limit,
                                ctx.And(exempt_typing, c0 >= recursion.per_function_execution_limit)))
        ctx.check(ctx.implies(ctx.And(admitted, ctx.Not(builtins)), inside),
                  'admitted => inside depth, total, per-function and recursion budgets')
        ctx.check(ctx.implies(ctx.And(admitted, ctx.Not(builtins)), total1 == total0 + 1),
                  'every admitted execution is charged to the total budget')
        ctx.check(ctx.implies(builtins, admitted), 'builtins are always admitted (coded exemption)')
        # pop restores
        out2 = ctx.call(det.pop_execution)
        ctx.check(ctx.And(out2.exc is None, det._recursion_level == n,
                          len(det._parent_execution_funcs) == n), 'pop undoes the push')


class C15a2(Obligation):
    id = 'C15.a2'
    title = 'execution_recursion_decorator: default when refused, push/pop balanced on every exit'
    pattern = 'P2 inductive step + P3 (wrapped function returns or raises)'
    assumptions = C15a.assumptions + ('the wrapped function is a stub that returns a marker or raises',)

    def configs(self, tier):
        lim = recursion.recursion_limit
        return [dict(n=n, m=1) for n in (0, 2, lim - 1, lim)]

    def scenario(self, ctx, cfg):
        n = cfg['n']
        det = make_detector(ctx, n, cfg['m'])
        f = ctx.int('funcdef', 0, 3)
        ex = Execution(f, ModuleCtx(ctx.bool('is_builtins'), 'other'),
                       Obj(execution_recursion_detector=det))
        raises = ctx.flag('wrapped_raises')
        calls = []

        def wrapped(self, **kwargs):
            calls.append(1)
            # while the body runs the push is visible
            calls.append(det._recursion_level)
            if raises:
                raise KeyError('boom')
            return 'RESULT'

        total0 = det._execution_count
        wrapper = execution_recursion_decorator(default='DEFAULT')(wrapped)
        out = ctx.call(wrapper, ex)
        ctx.check(ctx.And(det._recursion_level == n, len(det._parent_execution_funcs) == n),
                  'push/pop balanced on normal and exceptional exit')
        ran = len(calls) > 0
        if ran:
            ctx.check(calls[1] == n + 1, 'the body runs one level deeper')
            ctx.check(ctx.Or(ex._module_ctx._builtins,
                             ctx.And(n + 1 <= recursion.recursion_limit,
                                     total0 < recursion.total_function_execution_limit)),
                      'the body only runs inside the depth and total budgets')
            if raises:
                ctx.check(out.raised(KeyError), 'exceptions of the body propagate unchanged')
            else:
                ctx.check(ctx.And(out.exc is None, out.value == 'RESULT'), 'result of the body is returned')
        else:
            ctx.check(ctx.And(out.exc is None, out.value == 'DEFAULT'), 'refused => the default value')


from jedi.inference import syntax_tree as jst  # noqa: E402
from jedi.inference.base_value import NO_VALUES  # noqa: E402
from jedi.inference.value.klass import ClassMixin  # noqa: E402


class C15a3(Obligation):
    id = 'C15.a3'
    title = 'budgets are per Script: every new detector starts from zero with its own tables'
    pattern = 'P2 (initial state established by the real __init__)'
    assumptions = ('two detectors are built by the real constructor',)

    def scenario(self, ctx, cfg):
        ctx.int('unused')
        a = ExecutionRecursionDetector(None)
        b = ExecutionRecursionDetector(None)
        # use `a` for one execution
        a._pysym_holder = True
        ex = Execution(7, ModuleCtx(False, 'other'), None)
        ctx.run(a.push_execution, ex)
        ctx.check(b._recursion_level == 0 and b._execution_count == 0 and len(b._parent_execution_funcs) == 0
                  and len(b._funcdef_execution_counts) == 0, 'a fresh detector is empty whatever other detectors did')
        ctx.check(a._funcdef_execution_counts is not b._funcdef_execution_counts
                  and a._parent_execution_funcs is not b._parent_execution_funcs, 'tables are not shared')
        ctx.check(a._recursion_level == 1 and a._execution_count == 1 and a._funcdef_execution_counts.get(7) == 1,
                  'the used detector charged the execution to itself')


class C15e(Obligation):
    id = 'C15.e'
    title = 'per-node inference cap: the wrapped inference runs iff the incremented count is within the cap'
    pattern = 'P2 inductive step over an arbitrary counter'
    assumptions = ('the count of the node is an arbitrary integer >= 0 or absent; the wrapped function is a stub',)

    def configs(self, tier):
        return [dict(present=p) for p in (True, False)]

    def scenario(self, ctx, cfg):
        node = Obj(tag='node')
        builtins_module = Obj(tag='builtins')
        counts = {}
        c0 = 0
        if cfg['present']:
            c0 = ctx.int('count', 0)
            counts[node] = c0
        is_builtins = ctx.flag('is_builtins_module_context')
        state = Obj(inferred_element_counts=counts, builtins_module=builtins_module)
        context = Obj(tree_node=node, inference_state=state, parent_context=None,
                      get_value=lambda: builtins_module if is_builtins else Obj())
        calls = []

        def infer(context, *args):
            calls.append(1)
            return 'VALUES'
        wrapper = jst._limit_value_infers(infer)
        ctx.force(wrapper)
        out = ctx.call(wrapper, context)
        ctx.check(out.exc is None, 'never raises')
        if out.exc is not None:
            return
        cap = 300 * 100 if is_builtins else 300
        ctx.check(counts[node] == c0 + 1, 'the count grows by exactly one per request')
        ran = len(calls) == 1
        ctx.check(ctx.iff(ran, c0 + 1 <= cap), 'the inference runs iff the incremented count is within the cap')
        if ran:
            ctx.check(out.value == 'VALUES', 'result of the wrapped inference')
        else:
            ctx.check(out.value is NO_VALUES, 'over the cap: no values, no work')


class Lazy:
    def __init__(self, classes):
        self._classes = classes

    def infer(self):
        return list(self._classes)


RAW_MRO = ClassMixin.py__mro__.__wrapped__


class Klass:
    """class stand-in; its MRO is computed by the real (unmemoised) ClassMixin.py__mro__"""
    _pysym_holder = True

    def __init__(self, tag):
        self.tag = tag
        self.bases = []

    def py__bases__(self):
        return [Lazy([b]) for b in self.bases]

    def py__mro__(self):
        return RAW_MRO(self)


class C15f(Obligation):
    id = 'C15.f'
    title = 'class MRO listing: terminates, lists the class first, every ancestor exactly once'
    pattern = 'P1 over all acyclic inheritance graphs of <=4 classes (edges symbolic)'
    assumptions = (
        'inheritance graphs are acyclic here (cycles are cut by the generator memo, obligation of the memo itself); '
        'each base expression infers to one class; N<=5 classes, any subset of the forward edges',
    )

    def configs(self, tier):
        return [dict(N=n) for n in (2, 3, 4, 5)]

    def scenario(self, ctx, cfg):
        N = cfg['N']
        ks = [Klass('K%d' % i) for i in range(N)]
        edge = {}
        for i in range(N):
            for j in range(i + 1, N):
                edge[(i, j)] = ctx.flag('K%d_inherits_K%d' % (i, j))
                if edge[(i, j)]:
                    ks[i].bases.append(ks[j])
        ctx.int('unused')
        ctx.force(RAW_MRO)
        out = ctx.call(lambda: list(ks[0].py__mro__()))
        ctx.check(out.exc is None, 'never raises')
        if out.exc is not None:
            return
        mro = out.value
        reach = set([0])
        changed = True
        while changed:
            changed = False
            for (i, j), e in edge.items():
                if e and i in reach and j not in reach:
                    reach.add(j)
                    changed = True
        ctx.check(mro[0] is ks[0], 'the class itself comes first')
        ctx.check(len(mro) == len(set(id(k) for k in mro)), 'no class twice')
        ctx.check(set(k.tag for k in mro) == set('K%d' % i for i in reach), 'exactly the class and all its ancestors')


from jedi.inference import cache as jcache  # noqa: E402


class C15b(Obligation):
    id = 'C15.b'
    title = 'statement re-entrancy guard: a node already being inferred is refused, the stack is restored on every exit'
    pattern = 'P2 inductive step over an arbitrary stack of nodes'
    assumptions = ('the stack holds n<=4 node identities (symbolic ints in 0..3); the guarded body returns or raises',)

    def configs(self, tier):
        return [dict(n=n) for n in (0, 1, 2, 3, 4)]

    def scenario(self, ctx, cfg):
        n = cfg['n']
        stack = [ctx.int('on_stack%d' % i, 0, 3) for i in range(n)]
        before = list(stack)
        node = ctx.int('node', 0, 3)
        raises = ctx.flag('body_raises')
        state = Obj(recursion_detector=Obj(pushed_nodes=stack))
        raw = recursion.execution_allowed.__wrapped__
        ctx.force(raw)
        seen = []

        def body():
            with recursion.execution_allowed(state, node) as allowed:
                seen.append(allowed)
                seen.append(len(stack))
                if raises:
                    raise KeyError('boom')
            return 'done'
        out = ctx.call(body)
        already = ctx.Or(*[s == node for s in before]) if before else False
        ctx.check(len(seen) == 2, 'the body runs once')
        if len(seen) == 2:
            ctx.check(ctx.iff(seen[0], ctx.Not(already)), 'allowed iff the node is not already being inferred')
            ctx.check(seen[1] == (n + 1 if seen[0] else n), 'an allowed node is on the stack while its body runs')
        ctx.check(len(stack) == n and all(a is b for a, b in zip(stack, before)),
                  'the stack is exactly as before on normal and exceptional exit')
        if raises:
            ctx.check(out.raised(KeyError), 'exceptions of the body propagate')


class Holder:
    _pysym_holder = True

    def __init__(self, tag, state):
        self.tag = tag
        self.inference_state = state

    def __hash__(self):
        return hash(self.tag)

    def __eq__(self, other):
        return isinstance(other, Holder) and self.tag == other.tag


class C15c(Obligation):
    id = 'C15.c'
    title = 'memoisation with a recursion default: a re-entrant call gets the default, the body runs once per key, tables are per inference state'
    pattern = 'P2 (re-entrancy driven by a symbolic call pattern)'
    assumptions = (
        'a memoised method whose body re-enters itself on a key chosen symbolically among {same object, other object} '
        'up to depth 3; two inference states with their own memo tables',
    )

    def scenario(self, ctx, cfg):
        state_a, state_b = Obj(memoize_cache={}), Obj(memoize_cache={})
        objs = [Holder('x', state_a), Holder('y', state_a), Holder('x', state_b)]
        plan = [ctx.choice('reenter_on_%d' % d, 4) for d in range(3)]      # 0..2 = object index, 3 = stop
        runs = []
        ctx.int('unused')

        def body(obj):
            depth = len(runs)
            runs.append((obj.tag, id(obj.inference_state)))
            if depth < 3 and plan[depth] < 3:
                inner = memo(objs[plan[depth]])
                return ('value', obj.tag, depth, inner)
            return ('value', obj.tag, depth, None)
        memo = jcache._memoize_default(default='DEFAULT')(body)
        ctx.force(memo)
        out = ctx.call(memo, objs[0])
        ctx.check(out.exc is None, 'never raises, never recurses without bound')
        if out.exc is not None:
            return
        # the body runs at most once per (object, kwargs) key that is in flight
        keys = list(runs)
        ctx.check(len(keys) == len(set(keys)), 'no key is computed twice while it is in flight')
        ctx.check(len(runs) <= 3, 'the recursion is cut by the default value (3 distinct keys exist)')
        # tables are per inference state
        for fn, table in state_a.memoize_cache.items():
            for key in table:
                ctx.check(key[0].inference_state is state_a, 'entries of state A live in the table of state A')
        for fn, table in state_b.memoize_cache.items():
            for key in table:
                ctx.check(key[0].inference_state is state_b, 'entries of state B live in the table of state B')
        again = ctx.call(memo, objs[0])
        ctx.check(again.exc is None and again.value == out.value and len(runs) == len(keys),
                  'a finished key is served from the table, the final value replaced the default')


class C15d(Obligation):
    id = 'C15.d'
    title = 'generator memo: elements are produced once and replayed in order; re-entrant iteration stops at the sentinel'
    pattern = 'P2'
    assumptions = ('a memoised generator method producing k<=3 elements which may re-enter its own iteration at a symbolic point',)

    def configs(self, tier):
        return [dict(k=k) for k in (0, 1, 2, 3)]

    def scenario(self, ctx, cfg):
        k = cfg['k']
        state = Obj(memoize_cache={})
        obj = Holder('g', state)
        reenter_at = ctx.choice('reenter_before_element', k + 1)       # k = never
        produced = []
        inner_seen = []
        ctx.int('unused')

        def gen(o):
            for i in range(k):
                if i == reenter_at:
                    inner_seen.append(list(cached(o)))
                produced.append(i)
                yield ('element', i)
        cached = jcache.inference_state_method_generator_cache()(gen)
        ctx.force(cached)
        out = ctx.call(lambda: list(cached(obj)))
        ctx.check(out.exc is None, 'never raises')
        if out.exc is not None:
            return
        ctx.check(out.value == [('element', i) for i in range(k)], 'all elements, in order')
        ctx.check(produced == list(range(k)), 'every element is produced exactly once')
        if reenter_at < k:
            ctx.check(inner_seen == [[('element', i) for i in range(reenter_at)]],
                      'a re-entrant iteration sees the elements produced so far and then stops (no unbounded recursion)')
        again = ctx.call(lambda: list(cached(obj)))
        ctx.check(again.exc is None and again.value == out.value and produced == list(range(k)),
                  'a second iteration replays the memo without running the generator again')


from jedi.inference import imports as jimports  # noqa: E402


class ValuesStub:
    def __init__(self, reenter):
        self._reenter = reenter

    def __bool__(self):
        return True

    def py__getattribute__(self, name, name_context=None, analysis_errors=True):
        return self._reenter()


class C15g(Obligation):
    id = 'C15.g'
    title = 'import cycles: inferring "from a import x" while it is already being inferred yields nothing instead of recursing'
    pattern = 'P2 (re-entrancy through the attribute lookup of the imported module is a stub)'
    assumptions = ('the attribute lookup on the imported module re-enters infer_import for the same statement (a name-level '
                   'import cycle of symbolic length 1..3 statements); module loading is a stub',)

    def scenario(self, ctx, cfg):
        n = 1 + ctx.choice('cycle_length', 3)
        ctx.int('unused')
        state = Obj(memoize_cache={})
        contexts = [Obj(tag='module%d' % i, inference_state=state, get_root_context=lambda: 'ROOT') for i in range(n)]
        for c in contexts:
            c.__class__ = HashObj
        names = [Obj(tag='import-name-%d' % i) for i in range(n)]
        depth = []

        def prepare(module_context, tree_name):
            i = names.index(tree_name)
            depth.append(i)
            if len(depth) > 12:
                raise RecursionError('unbounded import recursion')
            nxt = (i + 1) % n
            return ('x', ('a',), 0, ValuesStub(lambda: jimports.infer_import(contexts[nxt], names[nxt])))
        ctx.patch(jimports, '_prepare_infer_import', prepare)
        ctx.patch(jimports, 'Importer', lambda state, path, module_context, level=0: Obj(follow=lambda: []))
        ctx.force(jimports.infer_import)
        out = ctx.call(jimports.infer_import, contexts[0], names[0])
        ctx.check(out.exc is None, 'a name-level import cycle terminates (no RecursionError)')
        ctx.check(len(depth) <= n, 'each import statement of the cycle is entered at most once')


class HashObj(Obj):
    def __hash__(self):
        return id(self)

    def __eq__(self, other):
        return self is other


from jedi.inference import syntax_tree as _jst  # noqa: E402
from jedi.inference.base_value import NO_VALUES as _NO_VALUES  # noqa: E402


class C15h(Obligation):
    id = 'C15.h'
    title = 'the statement guard covers EVERYTHING inferred for an assignment, its type comment included: a statement that is already being inferred yields nothing and starts no further inference'
    pattern = 'P3 (infer_expr_stmt with the real guard; the two inference sinks are recording stubs; re-entrancy symbolic)'
    assumptions = (
        'the statement is / is not already on the stack of statements being inferred (symbolic); a name is / is not sought '
        '(symbolic); find_type_from_comment_hint_assign and _infer_expr_stmt are stubs that record the stack they see',
    )

    def scenario(self, ctx, cfg):
        reentrant = ctx.flag('statement_already_being_inferred')
        seeking = ctx.flag('a_name_is_sought')
        comment_types = ctx.flag('type_comment_gives_types')
        ctx.int('unused')
        stmt = Obj(tag='stmt')
        stack = [Obj(tag='other')] + ([stmt] if reentrant else [])
        depth = len(stack)
        state = Obj(recursion_detector=Obj(pushed_nodes=stack), inferred_element_counts={}, builtins_module=None)
        context = Obj(tree_node=Obj(tag='scope'), inference_state=state, parent_context=Obj(), get_value=lambda: None)
        seen = []
        ctx.patch(_jst.annotation, 'find_type_from_comment_hint_assign',
                  lambda c, s, n: seen.append(('comment', len(stack))) or (['COMMENT-TYPE'] if comment_types else []))
        ctx.patch(_jst, '_infer_expr_stmt', lambda c, s, n=None: seen.append(('infer', len(stack))) or ['INFERRED'])
        raw = _jst.infer_expr_stmt
        ctx.force(getattr(raw, '__wrapped__', raw))
        out = ctx.call(_jst.infer_expr_stmt, context, stmt, Obj(tag='name') if seeking else None)
        ctx.check(out.exc is None, 'never raises')
        if out.exc is not None:
            return
        if reentrant:
            ctx.check(out.value is _NO_VALUES and seen == [], 'a statement that is being inferred yields nothing and triggers no inference at all')
        else:
            ctx.check(all(d == depth + 1 for _, d in seen) and len(seen) >= 1, 'every inference for the statement runs under its guard')
            if seeking and comment_types:
                ctx.check(out.value == ['COMMENT-TYPE'], 'a type comment wins')
            else:
                ctx.check(out.value == ['INFERRED'], 'otherwise the right-hand side is inferred')
        ctx.check(len(stack) == depth, 'the guard stack is restored')


import ast as _ast  # noqa: E402
import inspect as _inspect  # noqa: E402
import linecache as _linecache  # noqa: E402

import jedi.api as _japi  # noqa: E402


def _import_time_statement():
    """the module-level statement of jedi/api/__init__.py that adjusts the interpreter recursion limit, wrapped into a
    function of `sys` so that it can be executed symbolically (source taken from /repo at run time)"""
    src = _inspect.getsource(_japi)
    found = [st for st in _ast.parse(src).body
             if isinstance(st, _ast.Expr) and 'setrecursionlimit' in _ast.unparse(st)]
    assert len(found) == 1, 'expected exactly one import-time setrecursionlimit statement'
    text = 'def import_time_statement(sys):\n    ' + _ast.unparse(found[0]) + '\n'
    filename = '<jedi.api import-time statement>'
    _linecache.cache[filename] = (len(text), None, text.splitlines(True), filename)
    ns = {}
    exec(compile(text, filename, 'exec'), ns)
    return ns['import_time_statement'], _ast.unparse(found[0])


class C15i(Obligation):
    id = 'C15.i'
    title = 'importing jedi leaves the interpreter with a recursion limit of at least 3000, whatever the limit was before'
    pattern = 'P3 (the real import-time statement executed with sys replaced by a stub; the previous limit is an unbounded symbolic integer)'
    interpret_modules = ('jedi', 'obligations')
    assumptions = ('the limit in force before the import is an arbitrary integer >= 1; the statement is read from '
                   'jedi/api/__init__.py at run time',)

    def scenario(self, ctx, cfg):
        fn, text = _import_time_statement()
        before = ctx.int('limit_before_import', 1)
        now = [before]
        fake = Obj(getrecursionlimit=lambda: now[0], setrecursionlimit=lambda n: now.__setitem__(0, n))
        ctx.force(fn)
        out = ctx.call(fn, fake)
        ctx.check(out.exc is None, 'never raises')
        ctx.check(now[0] >= 3000, 'deep but finite inference chains do not die of the default limit of 1000')


OBLIGATIONS = [C15a, C15a2, C15a3, C15b, C15c, C15d, C15e, C15f, C15g, C15h, C15i]
