"""C03 - Name resolution follows Python's scoping rules (scope chain / selection kernels, thin)."""
from vf.ob import Obligation, Obj

from jedi.inference import context as jcontext
from jedi.inference.context import ModuleContext, ClassContext, CompForContext
from jedi.inference.value.function import BaseFunctionExecutionContext

LOG = []


def _mk(cls, tag, node_type):
    class Stub(cls):
        tree_node = None            # plain attributes instead of the real properties
        parent_context = None
        inference_state = None

        def __init__(self):
            pass

        def get_filters(self, until_position=None, origin_scope=None):
            LOG.append((self.tag, until_position, origin_scope))
            yield ('filter', self.tag)
    s = Stub()
    s.tag = tag
    s.tree_node = Obj(type=node_type)
    s.parent_context = None
    s._pysym_holder = True
    return s


KINDS = {
    'function': (BaseFunctionExecutionContext, 'funcdef'),
    'lambda': (BaseFunctionExecutionContext, 'lambdef'),
    'class': (ClassContext, 'classdef'),
    'comprehension': (CompForContext, 'sync_comp_for'),
}


class C03b(Obligation):
    id = 'C03.b'
    title = 'scope chain: innermost first, builtins last; the position limit applies up to the first function/module scope only'
    pattern = 'P3 (contexts are stand-ins of the real context classes; position symbolic)'
    assumptions = (
        'a chain of <=3 scopes of kind function / lambda / class / comprehension (symbolic) below a module; '
        'each context records the position limit it is asked with; the use position is a symbolic (line, column)',
    )

    def configs(self, tier):
        return [dict(depth=d) for d in ((0, 1, 2) if tier == 'quick' else (0, 1, 2, 3))]

    def scenario(self, ctx, cfg):
        del LOG[:]
        pos = (ctx.int('line', 1), ctx.int('column', 0))
        kinds = [ctx.oneof('scope%d' % i, ('function', 'lambda', 'class', 'comprehension')) for i in range(cfg['depth'])]
        chain = [_mk(KINDS[k][0], 'scope%d:%s' % (i, k), KINDS[k][1]) for i, k in enumerate(kinds)]
        module = _mk(ModuleContext, 'module', 'file_input')
        chain.append(module)
        for a, b in zip(chain, chain[1:]):
            a.parent_context = b
        builtins = Obj(get_filters=lambda: iter([('filter', 'builtins')]))
        chain[0].inference_state = Obj(builtins_module=builtins)
        origin = Obj(tag='origin')
        ctx.force(jcontext.get_global_filters)
        out = ctx.call(lambda: list(jcontext.get_global_filters(chain[0], pos, origin)))
        ctx.check(out.exc is None, 'never raises')
        if out.exc is not None:
            return
        filters = out.value
        ctx.check([f[1] for f in filters] == [c.tag for c in chain] + ['builtins'],
                  'filters come innermost scope first, builtins last')
        # expected position limits
        limited = True
        for i, c in enumerate(chain):
            tag, until, org = LOG[i]
            ctx.check(tag == c.tag and org is origin, 'every scope is asked once, with the origin scope')
            if limited:
                ctx.check(until is not None and until[0] == pos[0] and until[1] == pos[1],
                          'names bound after the use are hidden up to and including the first function/module scope')
            else:
                ctx.check(until is None, 'in the scopes around that function all bindings count (they happen before the call)')
            is_fn = i < len(kinds) and kinds[i] in ('function', 'lambda')
            if is_fn or c is module:
                limited = False


from jedi.inference import filters as jfilters  # noqa: E402
from jedi.inference import flow_analysis  # noqa: E402
from jedi.inference.filters import ParserTreeFilter  # noqa: E402

VERDICTS = (flow_analysis.REACHABLE, flow_analysis.UNREACHABLE, flow_analysis.UNSURE)


class DefName:
    _pysym_holder = True

    def __init__(self, tag, start_pos, in_scope, in_trailer, verdict):
        self.tag = tag
        self.start_pos = start_pos
        self.in_scope = in_scope
        self.parent = Obj(type='trailer' if in_trailer else 'expr_stmt')
        self.verdict = verdict


class C03a(Obligation):
    id = 'C03.a'
    title = 'within one scope the latest reachable definition before the use wins; later, foreign-scope and unreachable ones never'
    pattern = 'P3 (reachability analysis and parent-scope lookup are symbolic stubs)'
    assumptions = (
        'm<=3 candidate definitions with symbolic distinct start positions, a symbolic use position, a symbolic '
        'scope-membership bit, attribute-trailer bit and reachability verdict (REACHABLE/UNREACHABLE/UNSURE) each',
    )

    def configs(self, tier):
        return [dict(m=m) for m in ((1, 2) if tier == 'quick' else (1, 2, 3))]

    def scenario(self, ctx, cfg):
        m = cfg['m']
        scope = Obj(tag='scope')
        other = Obj(tag='other-scope')
        until = (ctx.int('use_line', 1), ctx.int('use_col', 0))
        names = []
        for i in range(m):
            pos = (ctx.int('def%d_line' % i, 1), ctx.int('def%d_col' % i, 0))
            n = DefName('def%d' % i, pos, ctx.flag('def%d_in_scope' % i), ctx.flag('def%d_in_trailer' % i),
                        VERDICTS[ctx.choice('def%d_verdict' % i, 3)])
            for o in names:
                ctx.assume(ctx.Not(ctx.And(o.start_pos[0] == pos[0], o.start_pos[1] == pos[1])))
            names.append(n)
        ctx.patch(jfilters, 'get_cached_parent_scope', lambda cache_node, node: scope if node.in_scope else other)
        ctx.patch(jfilters.flow_analysis, 'reachability_check',
                  lambda context, value_scope, node, origin_scope=None: node.verdict)
        flt = ParserTreeFilter.__new__(ParserTreeFilter)
        flt._pysym_holder = True
        flt._until_position = until
        flt._origin_scope = None
        flt._parso_cache_node = None
        flt._parser_scope = scope
        flt._node_context = None
        ctx.force(ParserTreeFilter._filter, ParserTreeFilter._check_flows, ParserTreeFilter._is_name_reachable)
        out = ctx.call(flt._filter, list(names))
        ctx.check(out.exc is None, 'never raises')
        if out.exc is not None:
            return
        res = out.value

        def before(n):
            return ctx.Or(n.start_pos[0] < until[0], ctx.And(n.start_pos[0] == until[0], n.start_pos[1] < until[1]))

        def later(a, b):    # a is after b
            return ctx.Or(a.start_pos[0] > b.start_pos[0],
                          ctx.And(a.start_pos[0] == b.start_pos[0], a.start_pos[1] > b.start_pos[1]))
        for n in names:
            eligible = ctx.And(before(n), n.in_scope, not (n.parent.type == 'trailer'))
            # hidden by a later eligible definition that is certainly reached
            shadowed = ctx.Or(*[ctx.And(before(o), o.in_scope, o.parent.type != 'trailer',
                                        o.verdict is flow_analysis.REACHABLE, later(o, n))
                                for o in names if o is not n]) if m > 1 else False
            expected = ctx.And(eligible, n.verdict is not flow_analysis.UNREACHABLE, ctx.Not(shadowed))
            ctx.check(ctx.iff(n in res, expected),
                      'returned iff: of this scope, before the use, reachable, not shadowed by a later certain definition')


from jedi.inference.value import function as jfunction  # noqa: E402


class Ctxt:
    _pysym_holder = True

    def __init__(self, kind, tag, parent):
        self.kind, self.tag, self.parent_context = kind, tag, parent
        self.inference_state = None

    def is_class(self):
        return self.kind == 'class'

    def is_instance(self):
        return self.kind == 'instance'


MADE = []


class FakeFunctionValue:
    def __new__(cls, state, parent_context=None, tree_node=None):
        MADE.append(('function', parent_context))
        return 'FUNCTION'


class C03c(Obligation):
    id = 'C03.c'
    title = 'class-body rule: names used in a method are looked up from the nearest enclosing NON-class scope'
    pattern = 'P3 (context chain of symbolic kinds; value construction is a recording stub)'
    assumptions = (
        'the defining context chain has <=3 levels of kind class / instance / function (symbolic) above a module; '
        'FunctionValue/MethodValue construction and overload discovery are stubs',
    )

    def configs(self, tier):
        return [dict(depth=d) for d in (1, 2, 3)]

    def scenario(self, ctx, cfg):
        module = Ctxt('module', 'module', None)
        chain = [module]
        kinds = []
        for i in range(cfg['depth']):
            k = ctx.oneof('level%d_kind' % i, ('class', 'instance', 'function'))
            kinds.append(k)
            chain.append(Ctxt(k, 'level%d' % i, chain[-1]))
        ctx.int('unused')
        inner = chain[-1]
        made = MADE
        del made[:]
        ctx.patch(jfunction, '_find_overload_functions', lambda context, node: [])
        ctx.patch(jfunction, 'MethodValue',
                  lambda state, class_context, parent_context=None, tree_node=None: made.append(('method', parent_context)) or 'METHOD')
        raw_from_context = jfunction.FunctionValue.from_context.__func__
        ctx.force(raw_from_context)
        out = ctx.call(raw_from_context, FakeFunctionValue, inner, Obj(tag='funcdef'))
        ctx.check(out.exc is None and len(made) == 1, 'one function value is created')
        if out.exc is not None or len(made) != 1:
            return
        kind, parent = made[0]
        expected = inner
        while expected.kind in ('class', 'instance'):
            expected = expected.parent_context
        ctx.check(parent is expected, 'the lookup parent skips EVERY enclosing class body (Python never consults them)')
        ctx.check((kind == 'method') == (inner.kind == 'class'), 'defined directly in a class body => a method')


import jedi  # noqa: E402
from obligations.scopes import SCOPE_CORPUS, name_scopes, jedi_chain  # noqa: E402


class C03d(Obligation):
    id = 'C03.d'
    title = 'every name is looked up through exactly the chain of scopes Python consults (functions, lambdas, comprehensions, class-body rule, header rule)'
    pattern = 'P4 concrete tree x symbolic cursor; reference chains from CPython ast'
    interpret_modules = ('jedi', 'parso', 'obligations')
    loop_bound = 400
    max_paths = 6000
    findings = {'C03-class-comprehension': 'comprehension in a class body sees the class scope'}
    assumptions = (
        'a corpus file with nested functions/classes/lambdas/list-set-dict comprehensions/generator expressions, star and '
        'annotated parameters, defaults, decorators and base classes is parsed natively; the cursor is symbolic and '
        'resolved by the interpreted get_leaf_for_position; domain: positions on ast.Name / parameter tokens; the context '
        'chain is built natively by ModuleContext.create_context; binding tokens are not uses and are skipped; for the first '
        'iterable of a comprehension and the defaults of a lambda jedi may consult that inner scope first (its bindings lie '
        'behind the use and are hidden by the position limit) - accepted',
    )

    def scenario(self, ctx, cfg):
        src = SCOPE_CORPUS[0]
        script = jedi.Script(src)
        scopes = name_scopes(src)
        line = ctx.int('line')
        column = ctx.int('column')
        on = [ctx.And(line == l, c < column, column <= c + 1) for (l, c) in scopes]
        ctx.assume(ctx.Or(*on))
        leaf = ctx.run(script._module_node.get_leaf_for_position, (line, column))
        ctx.check(leaf is not None and leaf.type == 'name' and leaf.start_pos in scopes, 'the position resolves to that name token')
        if leaf is None or leaf.start_pos not in scopes:
            return
        expected, binds, extra, in_class_comp = scopes[leaf.start_pos]
        out = ctx.call(script._get_module_context().create_context, leaf)
        ctx.check(out.exc is None, 'never raises')
        if out.exc is None and not binds:
            got = jedi_chain(out.value)
            ctx.observe((leaf.value, leaf.start_pos, got), 'chain')
            ok = got == expected or (extra is not None and got == (extra,) + expected)
            ctx.check(ok, "the lookup chain equals Python's", known={'C03-class-comprehension': in_class_comp})


from jedi import parser_utils as jparser_utils  # noqa: E402


def node_label(n):
    t = n.type
    if t == 'file_input':
        return 'module'
    if t == 'classdef':
        return 'class:' + n.name.value
    if t == 'funcdef':
        return 'function:' + n.name.value
    if t == 'lambdef':
        return 'lambda'
    return 'comprehension'


class C03e(Obligation):
    id = 'C03.e'
    title = 'header rule: parameter names belong to their function, everything else in a def/class header to the enclosing scope'
    pattern = 'P4 concrete tree x symbolic cursor; reference from CPython ast'
    interpret_modules = ('jedi', 'parso', 'obligations')
    loop_bound = 400
    max_paths = 6000
    assumptions = C03d.assumptions[:1] + (
        'parser_utils.get_parent_scope is interpreted on the token under the symbolic cursor; the first iterable of a '
        'comprehension may be attributed to the comprehension (jedi hides its bindings by position) - accepted',)

    def scenario(self, ctx, cfg):
        src = SCOPE_CORPUS[0]
        script = jedi.Script(src)
        scopes = name_scopes(src)
        line = ctx.int('line')
        column = ctx.int('column')
        ctx.assume(ctx.Or(*[ctx.And(line == l, c < column, column <= c + 1) for (l, c) in scopes]))
        leaf = ctx.run(script._module_node.get_leaf_for_position, (line, column))
        if leaf is None or leaf.start_pos not in scopes:
            ctx.check(False, 'the position resolves to that name token')
            return
        expected, binds, extra, in_class_comp = scopes[leaf.start_pos]
        if expected[0] == 'comprehension' or extra == 'comprehension':
            return      # get_parent_scope is deliberately coarse about comprehension elements (create_context is not: C03.d)
        ctx.force(jparser_utils.get_parent_scope)
        out = ctx.call(jparser_utils.get_parent_scope, leaf)
        ctx.check(out.exc is None and out.value is not None, 'never raises')
        if out.exc is None and out.value is not None:
            got = node_label(out.value)
            ctx.observe((leaf.value, leaf.start_pos, got), 'scope')
            ctx.check(got == expected[0] or (extra is not None and got == extra),
                      'the token belongs to the scope Python assigns it to')


import ast  # noqa: E402

from jedi.inference import filters as jfilters  # noqa: E402
from jedi.inference.names import TreeNameDefinition  # noqa: E402

LIMIT_CORPUS = """v = 'module'
def one():
    v = 'local'; r = v
    return r
def two(seq):
    total = 0
    total = total + len(seq); count = total
    for item in seq: total += item; last = item
    if total: w = total; z = w
    return (total, count, last, z)
class K:
    a = 1; b = a
    c = [b, a]; d = c
x = v; y = x
"""


def use_limits(src):
    """{(line, col): (lower, upper)}: for every plain name USE the range in which the "defined before" position limit
    must lie: lower = start of the innermost statement the use belongs to (every earlier statement of the block is then
    visible), upper = the statement start for a use in the value of an assignment (its own targets stay hidden), the
    use itself otherwise"""
    tree = ast.parse(src)
    out = {}

    def visit(stmt):
        for node in ast.iter_child_nodes(stmt):
            if isinstance(node, ast.stmt):
                visit(node)
        own = []        # names of this statement that are not inside a nested statement

        def collect(n, top):
            for ch in ast.iter_child_nodes(n):
                if isinstance(ch, ast.stmt):
                    continue
                if isinstance(ch, ast.Name) and isinstance(ch.ctx, ast.Load):
                    own.append(ch)
                collect(ch, False)
        collect(stmt, True)
        start = (stmt.lineno, stmt.col_offset)
        is_assign = isinstance(stmt, (ast.Assign, ast.AnnAssign, ast.AugAssign))
        for nm in own:
            pos = (nm.lineno, nm.col_offset)
            out[pos] = (start, start if is_assign else pos)
    for st in tree.body:
        visit(st)
    return out


class C03f(Obligation):
    id = 'C03.f'
    title = '"defined before use": the position limit of a lookup is the start of the STATEMENT the use belongs to, so earlier statements on the same line are seen and its own targets are not'
    pattern = 'P4 concrete tree x symbolic cursor; reference from CPython ast'
    interpret_modules = ('jedi', 'parso', 'obligations')
    loop_bound = 400
    max_paths = 4000
    assumptions = (
        'corpus with several statements per line (;), augmented and self-referencing assignments, one-line compound '
        'statements; the cursor is symbolic and resolved by the interpreted get_leaf_for_position; domain: plain name uses '
        '(ast.Name Load that is not an attribute, keyword or import); context.goto is a recording stub; no walrus',
    )

    def scenario(self, ctx, cfg):
        src = LIMIT_CORPUS
        script = jedi.Script(src)
        limits = use_limits(src)
        line = ctx.int('line')
        column = ctx.int('column')
        ctx.assume(ctx.Or(*[ctx.And(line == l, c < column, column <= c + 1) for (l, c) in limits]))
        leaf = ctx.run(script._module_node.get_leaf_for_position, (line, column))
        if leaf is None or leaf.start_pos not in limits:
            ctx.check(False, 'the position resolves to the use')
            return
        asked = []
        context = Obj(goto=lambda name, position=None: asked.append((name, position)) or ['target'], tag='context')
        n = TreeNameDefinition(context, leaf)
        out = ctx.call(n.goto)
        ctx.check(out.exc is None and len(asked) == 1 and asked[0][0] is leaf, 'a plain use is looked up through its context, once')
        if out.exc is not None or len(asked) != 1:
            return
        lower, upper = limits[leaf.start_pos]
        pos = asked[0][1]
        ctx.observe((leaf.value, leaf.start_pos, pos), 'limit')
        ctx.check(pos is not None and lower <= pos, 'every statement that precedes the use\'s statement is visible (also on the same line)')
        ctx.check(pos is not None and pos <= upper, 'the targets of the use\'s own assignment (and anything behind the use) are not')


class C03g(Obligation):
    id = 'C03.g'
    title = 'only names declared in a GLOBAL statement are merged into the module namespace (nonlocal and everything else stay where they are)'
    pattern = 'P1 (GlobalNameFilter._filter over names whose parent node type is an unconstrained symbolic string)'
    assumptions = ('k<=3 candidate names; the node type of each parent is an unconstrained symbolic string',)

    def configs(self, tier):
        return [dict(k=k) for k in (1, 2, 3)]

    def scenario(self, ctx, cfg):
        types = [ctx.str('parent_type%d' % i, maxlen=16) for i in range(cfg['k'])]
        names = [Obj(parent=Obj(type=t), tag='name%d' % i) for i, t in enumerate(types)]
        f = jfilters.GlobalNameFilter.__new__(jfilters.GlobalNameFilter)
        raw = jfilters.GlobalNameFilter._filter
        ctx.force(getattr(raw, '__wrapped__', raw))
        out = ctx.call(lambda: list(jfilters.GlobalNameFilter._filter(f, names)))
        ctx.check(out.exc is None, 'never raises')
        if out.exc is not None:
            return
        for i, nm in enumerate(names):
            inside = any(x is nm for x in out.value)
            ctx.check(ctx.iff(inside, types[i] == 'global_stmt'), 'kept iff the name sits in a global statement')


OBLIGATIONS = [C03a, C03b, C03c, C03d, C03e, C03f, C03g]
