"""C11 - Signatures and docstrings mirror the definition; index locates the argument."""
from inspect import Parameter

from vf.ob import Obligation, Obj

from jedi.api import helpers
from jedi.api.helpers import CallDetails

PO, PK, VP, KO, VK = (Parameter.POSITIONAL_ONLY, Parameter.POSITIONAL_OR_KEYWORD,
                      Parameter.VAR_POSITIONAL, Parameter.KEYWORD_ONLY, Parameter.VAR_KEYWORD)


def valid_kind_sequences(P):
    """every kind sequence a Python def can have with P parameters"""
    out = []

    def rec(seq):
        if len(seq) == P:
            out.append(tuple(seq))
            return
        last = seq[-1] if seq else PO
        for k in (PO, PK, VP, KO, VK):
            if k < last:
                continue
            if k in (VP, VK) and k in seq:
                continue
            rec(seq + [k])
    rec([])
    return out


class PN:
    """stand-in for a ParamName: kind and spelling are all calculate_index looks at"""
    _pysym_holder = True

    def __init__(self, kind, name):
        self.kind = kind
        self.string_name = name

    def get_kind(self):
        return self.kind


class CD(CallDetails):
    _pysym_holder = True

    def __init__(self, args):
        self._args = args

    def _list_arguments(self):
        return self._args


# argument shapes, as produced by helpers._iter_arguments: (star_count, key_start, had_equal)
A_POS, A_NAME, A_KW, A_STAR, A_STARSTAR = range(5)


class C11a(Obligation):
    id = 'C11.a'
    title = 'Signature.index is a parameter Python could bind the argument under the cursor to'
    pattern = 'P1 kernel vs reference model (admissible set)'
    sym_containers = True
    max_paths = 80000
    assumptions = (
        'parameter lists are valid Python parameter lists with distinct non-empty names',
        'the call prefix can still be completed to a call Python accepts (positionals before '
        'keywords, no duplicate / already-bound keyword, not more positionals than bindable); '
        'otherwise every answer is admissible',
        'earlier *iterable / **mapping arguments: only totality (index in range or None) is claimed',
        'argument triples are what helpers._iter_arguments yields (star_count, key_start, had_equal)',
    )

    def configs(self, tier):
        out = []
        if tier == 'quick':
            shapes = [(P, A) for P in range(0, 4) for A in (1, 2)] + [(1, 3), (2, 3)]
        else:
            shapes = [(P, A) for P in range(0, 5) for A in (1, 2)] + [(1, 3), (2, 3), (3, 3)]
        for P, A in shapes:
            out.append(dict(P=P, A=A, stars=False))
        for P in range(1, 3 if tier == 'quick' else 4):
            out.append(dict(P=P, A=2, stars=True))
        return out

    def scenario(self, ctx, cfg):
        P, A = cfg['P'], cfg['A']
        kinds = ctx.oneof('kinds', valid_kind_sequences(P))
        names = [ctx.str('p%d' % i, maxlen=3, alphabet='ab') for i in range(P)]
        for i in range(P):
            ctx.assume(ctx.len(names[i]) > 0)
            for j in range(i):
                ctx.assume(names[i] != names[j])
        params = [PN(kinds[i], names[i]) for i in range(P)]

        # ---- the call prefix
        args = []
        shapes = []
        for j in range(A):
            last = j == A - 1
            if last:
                shape = ctx.choice('shape%d' % j, 5)
            elif cfg['stars']:
                shape = ctx.oneof('shape%d' % j, (A_STAR, A_STARSTAR))
            else:
                shape = ctx.choice('shape%d' % j, 3)
            shapes.append(shape)
            if shape == A_POS:
                args.append((0, None, False))
            elif shape == A_NAME:
                args.append((0, ctx.str('a%d' % j, maxlen=3, alphabet='ab'), False))
            elif shape == A_KW:
                k = ctx.str('a%d' % j, maxlen=3, alphabet='ab')
                ctx.assume(ctx.len(k) > 0)
                args.append((0, k, True))
            elif shape == A_STAR:
                args.append((1, ctx.oneof('starname%d' % j, (None, 'x')), False))
            else:
                args.append((2, ctx.oneof('starname%d' % j, (None, 'x')), False))

        out = ctx.call(CD(args).calculate_index, params)
        ctx.check(out.exc is None, 'calculate_index never raises')
        if out.exc is not None:
            return
        got = out.value
        in_range = ctx.Or(got is None, *[got == i for i in range(P)]) if got is not None else True
        ctx.check(in_range, 'index is None or a valid parameter index')
        if cfg['stars']:
            return

        # ---- reference: Python's binding of the earlier arguments
        earlier = shapes[:-1]
        n_pos = 0
        seen_kw = False
        for s in earlier:
            if s in (A_POS, A_NAME):
                if seen_kw:
                    return              # positional after keyword: not a valid call prefix
                n_pos += 1
            else:
                seen_kw = True
        n_positional_params = len([k for k in kinds if k in (PO, PK)])
        has_vp = VP in kinds
        has_vk = VK in kinds
        if n_pos > n_positional_params and not has_vp:
            return                      # too many positionals already
        kw_args = [args[j][1] for j in range(A - 1) if shapes[j] == A_KW]
        valid = True
        for a in range(len(kw_args)):
            for b in range(a):
                valid = ctx.And(valid, kw_args[a] != kw_args[b])
        # bound(i): parameter i already received a value
        bound = []
        for i in range(P):
            by_pos = kinds[i] in (PO, PK) and i < n_pos
            by_kw = False
            if kinds[i] in (PK, KO):
                by_kw = ctx.Or(*[k == names[i] for k in kw_args]) if kw_args else False
            if by_pos:
                valid = ctx.And(valid, ctx.Not(by_kw))      # multiple values for one parameter
            bound.append(ctx.Or(by_pos, by_kw))
        for k in kw_args:
            hits = [k == names[i] for i in range(P) if kinds[i] in (PK, KO)]
            names_a_param = ctx.Or(*hits) if hits else False
            if not has_vk:
                valid = ctx.And(valid, names_a_param)        # unexpected keyword argument

        # ---- admissible answers for the argument under the cursor
        last_shape = shapes[-1]
        key = args[-1][1]
        adm = []            # list of (index, condition)
        none_ok = True

        def positional_options():
            if seen_kw:
                return []
            if n_pos < P and kinds[n_pos] in (PO, PK):
                return [(n_pos, True)]
            if has_vp:
                return [(kinds.index(VP), True)]
            return []

        if last_shape == A_POS:
            if seen_kw:
                return
            adm = positional_options()
        elif last_shape == A_STAR:
            if seen_kw:
                return
            adm = positional_options()
            if has_vp:
                adm.append((kinds.index(VP), True))
        elif last_shape == A_KW:
            dup = ctx.Or(*[key == k for k in kw_args]) if kw_args else False
            valid = ctx.And(valid, ctx.Not(dup))
            named = False
            for i in range(P):
                if kinds[i] in (PK, KO):
                    hit = key == names[i]
                    valid = ctx.And(valid, ctx.Not(ctx.And(hit, bound[i])))
                    adm.append((i, hit))
                    named = ctx.Or(named, hit)
            if has_vk:
                adm.append((kinds.index(VK), ctx.Not(named)))
        elif last_shape == A_NAME:
            adm = positional_options()
            for i in range(P):
                if kinds[i] in (PK, KO):
                    adm.append((i, ctx.And(names[i].startswith(key), ctx.Not(bound[i]))))
            if has_vk:
                adm.append((kinds.index(VK), True))
        else:   # **mapping under the cursor: may fill any unbound keyword-capable parameter
            for i in range(P):
                if kinds[i] in (PK, KO):
                    adm.append((i, ctx.Not(bound[i])))
            if has_vk:
                adm.append((kinds.index(VK), True))

        some = ctx.Or(*[c for i, c in adm]) if adm else False
        if got is None:
            ok = ctx.Not(some)
        else:
            ok = ctx.Or(*[ctx.And(got == i, c) for i, c in adm]) if adm else False
        ctx.check(ctx.implies(valid, ok), 'index is admissible under Python binding rules')


class RPN(PN):
    """parameter stub that renders like BaseTreeParamName.to_string (stars from the kind)"""

    def to_string(self):
        if self.kind == VP:
            return '*' + self.string_name
        if self.kind == VK:
            return '**' + self.string_name
        return self.string_name


from jedi.inference.signature import _SignatureMixin, AbstractSignature  # noqa: E402


class Sig(_SignatureMixin):
    _pysym_holder = True
    annotation_string = ''

    def __init__(self, params):
        self._params = params
        self.name = Obj(string_name='f')

    def get_param_names(self, resolve_stars=False):
        return self._params


def reparse(tokens):
    """kinds of a rendered parameter list, read back with Python's grammar; None if not a valid list"""
    if tokens.count('/') > 1 or tokens.count('*') > 1:
        return None
    slash = tokens.index('/') if '/' in tokens else None
    if slash == 0:
        return None
    kinds = []
    kwonly = False
    seen_var_positional = False
    for i, t in enumerate(tokens):
        if t == '/':
            if kwonly:
                return None
            continue
        if t == '*':
            if seen_var_positional or kwonly:
                return None
            nxt = tokens[i + 1] if i + 1 < len(tokens) else None
            if nxt is None or nxt.startswith('*') or nxt == '/':
                return None             # a bare * needs a keyword-only parameter after it
            kwonly = True
            continue
        if t.startswith('**'):
            if i != len(tokens) - 1:
                return None
            kinds.append(VK)
        elif t.startswith('*'):
            if kwonly or seen_var_positional:
                return None
            seen_var_positional = True
            kwonly = True
            kinds.append(VP)
        elif kwonly:
            kinds.append(KO)
        elif slash is not None and i < slash:
            kinds.append(PO)
        else:
            kinds.append(PK)
    return kinds


class C11b(Obligation):
    id = 'C11.b'
    title = 'to_string(): the rendered parameter list re-parses to the same kinds (/, * markers)'
    pattern = 'P1 kernel vs reference (Python grammar for / and *)'
    assumptions = (
        'all valid parameter-kind sequences up to P parameters with SYMBOLIC kinds (the interpreter forks on the '
        'comparisons to_string makes); parameters render as name, *name, **name according to their kind',
    )

    def configs(self, tier):
        return [dict(P=p) for p in (range(0, 5) if tier == 'quick' else range(0, 7))]

    def scenario(self, ctx, cfg):
        P = cfg['P']
        kinds = [ctx.int('kind%d' % i, 0, 4) for i in range(P)]
        for i in range(P):
            if i:
                ctx.assume(kinds[i - 1] <= kinds[i])
            for j in range(i):
                ctx.assume(ctx.Not(ctx.And(kinds[i] == kinds[j], ctx.Or(kinds[i] == 2, kinds[i] == 4))))
        params = [RPN(kinds[i], 'p%d' % i) for i in range(P)]
        out = ctx.call(Sig(params).to_string)
        ctx.check(out.exc is None, 'to_string never raises')
        if out.exc is not None:
            return
        text = out.value
        ctx.check(text.startswith('f(') and text.endswith(')'), 'name(params)')
        inner = text[2:-1]
        tokens = inner.split(', ') if inner else []
        got = reparse(tokens)
        ctx.check(got is not None, 'the rendered list is a valid Python parameter list')
        if got is None:
            return
        ctx.check(len(got) == P, 'every parameter is rendered once')
        if len(got) == P:
            ctx.check(ctx.And(*[kinds[i] == int(got[i]) for i in range(P)]) if P else True,
                      're-parsing gives every parameter its original kind')
            names = [t.lstrip('*') for t in tokens if t not in ('/', '*')]
            ctx.check(names == ['p%d' % i for i in range(P)], 'names in order')


class FV:
    def __init__(self, params):
        self._params = params

    def get_param_names(self):
        return self._params


class BoundSig(AbstractSignature):
    _pysym_holder = True

    def __init__(self, params, is_bound):
        self.value = None
        self.is_bound = is_bound
        self._function_value = FV(params)


class C11d(Obligation):
    id = 'C11.d'
    title = 'bound signatures drop exactly the first parameter, unbound ones none'
    pattern = 'P1'
    assumptions = ('parameter names are abstract markers; P<=4',)

    def configs(self, tier):
        return [dict(P=p) for p in range(0, 5)]

    def scenario(self, ctx, cfg):
        params = ['param%d' % i for i in range(cfg['P'])]
        bound = ctx.flag('is_bound')
        ctx.int('unused')
        out = ctx.call(BoundSig(params, bound).get_param_names)
        ctx.check(out.exc is None, 'never raises')
        if out.exc is None:
            ctx.check(list(out.value) == (params[1:] if bound else params),
                      'self/cls is removed exactly where Python binds it')


import io  # noqa: E402
import keyword  # noqa: E402
import tokenize  # noqa: E402

import jedi  # noqa: E402

CALL_CORPUS = [
    'foo(1, bar(2, 3), (4, 5), [6, baz(7)], "a(b", x=qux(8))\nplain = (1, 2)\n',
    'obj.method(a)(b).other[0](c, d=e(f))\nprint ("x", end="")\n',
    '@deco(arg, other(1))\ndef func(p=call(0)):\n    return func(p)(p)\n',
    'outer(\n    inner(1,\n          2),\n    3)\nclass K(Base(1)):\n    pass\n',
]


def call_brackets(src):
    """[(open_pos, close_pos_or_None)] of the parentheses that open a CALL, from CPython's tokenizer"""
    toks = [t for t in tokenize.generate_tokens(io.StringIO(src).readline)
            if t.type not in (tokenize.NL, tokenize.NEWLINE, tokenize.INDENT, tokenize.DEDENT, tokenize.COMMENT,
                              tokenize.ENDMARKER)]
    out = []
    stack = []
    for i, t in enumerate(toks):
        if t.type == tokenize.OP and t.string in '([{':
            prev = toks[i - 1] if i else None
            prev2 = toks[i - 2] if i > 1 else None
            is_call = t.string == '(' and prev is not None and (
                (prev.type == tokenize.NAME and not keyword.iskeyword(prev.string)) or prev.string in (')', ']'))
            if is_call and prev2 is not None and prev2.string in ('def', 'class'):
                is_call = False
            stack.append((t.start, is_call))
        elif t.type == tokenize.OP and t.string in ')]}':
            start, is_call = stack.pop()
            if is_call:
                out.append((start, t.start))
    return out


def keyword_equals(src):
    """[(position directly behind the "=", keyword)] for keyword arguments name=... of calls"""
    toks = [t for t in tokenize.generate_tokens(io.StringIO(src).readline)
            if t.type not in (tokenize.NL, tokenize.NEWLINE, tokenize.INDENT, tokenize.DEDENT, tokenize.COMMENT)]
    out = []
    depth_is_call = []
    for i, t in enumerate(toks):
        if t.type == tokenize.OP and t.string in '([{':
            prev = toks[i - 1] if i else None
            prev2 = toks[i - 2] if i > 1 else None
            is_call = t.string == '(' and prev is not None and (
                (prev.type == tokenize.NAME and not keyword.iskeyword(prev.string)) or prev.string in (')', ']'))
            if is_call and prev2 is not None and prev2.string in ('def', 'class'):
                is_call = False
            depth_is_call.append(is_call)
        elif t.type == tokenize.OP and t.string in ')]}':
            depth_is_call.pop()
        elif t.type == tokenize.OP and t.string == '=' and depth_is_call and depth_is_call[-1] and i >= 2 \
                and toks[i - 1].type == tokenize.NAME and toks[i - 2].string in ('(', ','):
            out.append((t.end, toks[i - 1].string))
    return out


class C11f(Obligation):
    id = 'C11.f'
    title = 'bracket_start is the opening parenthesis of the innermost call around the cursor, for every cursor'
    pattern = 'P4 concrete tree x symbolic cursor; reference from CPython tokenize'
    interpret_modules = ('jedi', 'parso', 'obligations')
    loop_bound = 400
    max_paths = 6000
    assumptions = (
        'a corpus of valid call snippets (nested calls, tuples, subscripts, strings containing parentheses, decorators, '
        'class bases, multi-line calls) parsed natively; (line, column) symbolic within the text; a cursor is inside a '
        'call when open < cursor <= position of the closing parenthesis; def/class headers show no signature',
    )

    def configs(self, tier):
        return [dict(snippet=i) for i in range(2 if tier == 'quick' else len(CALL_CORPUS))]

    def scenario(self, ctx, cfg):
        src = CALL_CORPUS[cfg['snippet']]
        script = jedi.Script(src)
        module, lines = script._module_node, script._code_lines
        line = ctx.int('line', 1, len(lines))
        column = ctx.int('column', 0)
        text = lines[line - 1]
        ctx.assume(column <= len(text.rstrip('\n')))
        pos = (line, column)
        out = ctx.call(helpers.get_signature_details, module, pos)
        ctx.check(out.exc is None, 'never raises')
        if out.exc is not None:
            return
        got = None if out.value is None else out.value.bracket_leaf.start_pos
        ctx.observe(got, 'bracket')
        brackets = call_brackets(src)
        # innermost call whose parentheses surround the cursor (latest opening position wins)
        for o, c in brackets:
            inside = ctx.And(_lt(ctx, o, pos), _le(ctx, pos, c))
            # no other call bracket opens later and also surrounds the cursor
            inner = [ctx.And(_lt(ctx, o2, pos), _le(ctx, pos, c2)) for o2, c2 in brackets if o2 > o]
            innermost = ctx.And(inside, ctx.Not(ctx.Or(*inner))) if inner else inside
            ctx.check(ctx.implies(innermost, got == o), 'inside a call: bracket_start is its opening parenthesis')
        if got is not None:
            ctx.check(ctx.Or(*[ctx.And(got == o, _lt(ctx, o, pos), _le(ctx, pos, c)) for o, c in brackets]),
                      'a reported bracket is a call parenthesis that surrounds the cursor')
            # keyword arguments: directly behind "name=" the argument under the cursor is that keyword
            last = out.value._list_arguments()[-1] if out.value._list_arguments() else None
            for (eq_end, kw) in keyword_equals(src):
                wrong = last != (0, kw, True)
                if wrong:
                    ctx.check(ctx.Not(ctx.And(line == eq_end[0], column == eq_end[1])),
                              'directly behind "name=" the argument being typed is the keyword argument name')


def _lt(ctx, a, b):
    return ctx.Or(a[0] < b[0], ctx.And(a[0] == b[0], a[1] < b[1]))


def _le(ctx, a, b):
    return ctx.Or(a[0] < b[0], ctx.And(a[0] == b[0], a[1] <= b[1]))


from jedi.api import classes as jclasses  # noqa: E402


class C11e(Obligation):
    id = 'C11.e'
    title = 'docstring(): raw => the docstring itself; otherwise the signature line(s), a blank line and the docstring'
    pattern = 'P1 (signature text and raw docstring are symbolic strings)'
    assumptions = ('the raw docstring and the rendered signature text are arbitrary symbolic strings (<=6 chars)',)

    def scenario(self, ctx, cfg):
        doc = ctx.str('raw_docstring', maxlen=6)
        sig = ctx.str('signature_text', maxlen=6)
        raw = ctx.flag('raw')
        n = jclasses.BaseName.__new__(jclasses.BaseName)
        n._pysym_holder = True
        n._name = Obj(tag='plain-name')
        n._get_docstring = lambda: doc
        n._get_docstring_signature = lambda: sig
        out = ctx.call(jclasses.BaseName.docstring, n, raw=raw)
        ctx.check(out.exc is None, 'never raises')
        if out.exc is not None:
            return
        if raw:
            ctx.check(out.value == doc, 'raw=True: exactly the docstring of the definition')
        else:
            both = ctx.And(ctx.len(sig) > 0, ctx.len(doc) > 0)
            ctx.check(ctx.implies(both, out.value == sig + '\n\n' + doc), 'signature, blank line, docstring')
            ctx.check(ctx.implies(ctx.Not(both), out.value == sig + doc), 'only one of them: that one alone')


from jedi.inference.names import _ActualTreeParamName  # noqa: E402

from obligations.c06 import Op  # noqa: E402


class ParamLeaf:
    type = 'param'

    def __init__(self, name, star_count):
        self.name = Obj(value=name)
        self.star_count = star_count
        self.parent = None


class C11c(Obligation):
    id = 'C11.c'
    title = 'parameter kinds derived from the tree equal Python\'s kinds (/, bare *, *args, **kwargs)'
    pattern = 'P1 kernel vs reference (inverse of the rendering: build the parameter list from kinds)'
    assumptions = (
        'every valid kind sequence up to P parameters is laid out as parso does (param nodes with "/" and bare "*" '
        'operator leaves and commas between them); names do not start with "__" (typeshed convention, documented)',
    )

    def configs(self, tier):
        return [dict(P=p) for p in (range(1, 5) if tier == 'quick' else range(1, 7))]

    def scenario(self, ctx, cfg):
        P = cfg['P']
        kinds = ctx.oneof('kinds', valid_kind_sequences(P))
        which = ctx.choice('asked_parameter', P)
        ctx.int('unused')
        children = []
        params = []
        has_vp = VP in kinds
        for i, k in enumerate(kinds):
            if k == KO and not has_vp and (i == 0 or kinds[i - 1] not in (KO,)):
                children.append(Op('*'))
                children.append(Op(','))
            p = ParamLeaf('p%d' % i, 1 if k == VP else 2 if k == VK else 0)
            params.append(p)
            children.append(p)
            children.append(Op(','))
            if k == PO and (i + 1 == P or kinds[i + 1] != PO):
                children.append(Op('/'))
                children.append(Op(','))
        parent = Obj(children=children)
        for p in params:
            p.parent = parent
        name = _ActualTreeParamName.__new__(_ActualTreeParamName)
        name._get_param_node = lambda: params[which]
        ctx.force(_ActualTreeParamName.get_kind)
        out = ctx.call(name.get_kind)
        ctx.check(out.exc is None, 'never raises')
        if out.exc is None:
            ctx.check(out.value == kinds[which], 'the kind read from the tree is the kind the definition gives the parameter')


import inspect  # noqa: E402

from jedi import parser_utils as jpu  # noqa: E402


class C11g(Obligation):
    id = 'C11.g'
    title = 'raw docstring == inspect.cleandoc of the literal (what inspect.getdoc returns), for one-line and multi-line docstrings alike'
    pattern = 'P1 (clean_scope_docstring vs the interpreted inspect.cleandoc on the same symbolic text)'
    interpret_modules = ('jedi', 'inspect')
    loop_bound = 64
    assumptions = (
        'the docstring consists of K<=3 lines, each a symbolic string without newline and tab of length<=3; '
        'the literal prefix is one of "", r, u, f, Rb-free spellings; ast.literal_eval is CPython\'s and returns the text '
        'for non-f literals (stub); an f-string is not a docstring (expected: empty)',
    )
    z3_timeout = 8.0

    def configs(self, tier):
        return [dict(K=k) for k in ((1, 2) if tier == 'quick' else (1, 2, 3))]

    def scenario(self, ctx, cfg):
        lines = [ctx.str('line%d' % i, maxlen=cfg.get('L', 3), exclude='\n\t') for i in range(cfg['K'])]
        doc = lines[0]
        for l in lines[1:]:
            doc = doc + '\n' + l
        prefix = ctx.oneof('literal_prefix', ['"""', 'r"""', "u'", 'f"""', 'Rf"""', "'''"])
        source = prefix + 'DOC' + '"""'
        ctx.patch(jpu, 'literal_eval', lambda value: doc if value is source else None)
        scope = Obj(get_doc_node=lambda: Obj(value=source))
        ctx.force(jpu.clean_scope_docstring, jpu.safe_literal_eval, inspect.cleandoc)
        out = ctx.call(jpu.clean_scope_docstring, scope)
        ctx.check(out.exc is None, 'never raises')
        if out.exc is not None:
            return
        if 'f' in prefix.lower():
            ctx.check(out.value == '', 'an f-string is not a docstring')
            return
        ref = ctx.run(inspect.cleandoc, doc)
        ctx.check(out.value == ref, 'the docstring is cleaned exactly as inspect.cleandoc does')
        nodoc = ctx.run(jpu.clean_scope_docstring, Obj(get_doc_node=lambda: None))
        ctx.check(nodoc == '', 'no docstring => empty string')


OBLIGATIONS = [C11a, C11b, C11c, C11d, C11e, C11f, C11g]
