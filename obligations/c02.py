"""C02 - Inferred types agree with what the program does when executed (binding / unpacking kernels)."""
from vf.ob import Obligation, Obj

from jedi.inference import syntax_tree as jst
from jedi.inference.names import TreeNameDefinition
from jedi.inference.base_value import NO_VALUES

from obligations.c06 import Op


class Node:
    def __init__(self, type_, children=None):
        self.type = type_
        self.children = children or []
        self.parent = None
        for c in self.children:
            if isinstance(c, Node):
                c.parent = self

    def __repr__(self):
        return '<%s>' % self.type


def target_list(kind, targets, trailing_comma=False):
    ch = []
    for i, t in enumerate(targets):
        if i:
            ch.append(Op(','))
        ch.append(t)
    if trailing_comma:
        ch.append(Op(','))
    return Node(kind, ch)


class Lazy:
    max = 1

    def __init__(self, value):
        self._value = value

    def infer(self):
        return self._value


class SeqValue:
    """value set of one sequence whose length is symbolic; element i is tagged with its index path"""
    _pysym_holder = True

    def __init__(self, ctx, path, length, nested_at=None, nested=None):
        self.ctx, self.path, self.length = ctx, path, length
        self.nested_at, self.nested = nested_at, nested

    def iterate(self, contextualized_node=None):
        i = 0
        while i < self.length:
            if self.nested_at is not None and i == self.nested_at:
                yield Lazy(self.nested)
            else:
                yield Lazy(('element',) + self.path + (i,))
            i += 1


class C02b(Obligation):
    id = 'C02.b'
    title = 'tuple assignment: a target is inferred as the element Python\'s unpacking gives it'
    pattern = 'P1 kernel vs Python unpacking semantics (right-hand length symbolic)'
    loop_bound = 40
    assumptions = (
        'target lists of n<=3 names, optionally one starred target, optionally one nested (parenthesised) target of 2 '
        'names; parso nodes are stand-ins with type/children/parent; the right-hand side is one sequence of symbolic '
        'length L (L == n without star, L >= n-1 with star: the unpacking Python accepts); each element infers to a '
        'distinct tag; lazy values have max=1',
    )
    findings = {'C02-after-star': 'target AFTER a starred target when the right-hand side is longer than the target list'}

    def configs(self, tier):
        out = []
        for n in ((1, 2, 3) if tier == 'quick' else (1, 2, 3, 4)):
            for star in [None] + list(range(n)):
                for nested in [None] + list(range(n)):
                    if nested is not None and nested == star:
                        continue
                    out.append(dict(n=n, star=star, nested=nested))
        return out

    def scenario(self, ctx, cfg):
        n, star, nested = cfg['n'], cfg['star'], cfg['nested']
        names = [Node('name') for _ in range(n)]
        inner_names = [Node('name'), Node('name')]
        targets = []
        for i in range(n):
            t = names[i]
            if nested == i:
                t = Node('atom', [Op('('), target_list('testlist_comp', inner_names), Op(')')])
            if star == i:
                t = Node('star_expr', [Op('*'), t])
            targets.append(t)
        trailing = ctx.flag('trailing_comma')
        lst = target_list('testlist_star_expr', targets, trailing) if (n > 1 or trailing) else targets[0]
        stmt = Node('expr_stmt', [lst, Op('='), Node('atom')])
        # which name are we asking about?
        candidates = [(i, None) for i in range(n) if i != nested] + \
                     ([(nested, 0), (nested, 1)] if nested is not None else [])
        j, inner = candidates[ctx.choice('asked_name', len(candidates))]
        tree_name = names[j] if inner is None else inner_names[inner]
        L = ctx.int('rhs_length', 0, 6)
        if star is None:
            ctx.assume(L == n)
        else:
            ctx.assume(L >= n - 1)
        nested_value = SeqValue(ctx, (j,), 2) if inner is not None else None
        # with a star before the nested target its run-time index is counted from the end
        value = SeqValue(ctx, (), L, nested_at=j if inner is not None else None, nested=nested_value)
        name = TreeNameDefinition.__new__(TreeNameDefinition)
        name._pysym_holder = True
        name.parent_context = None
        name.tree_name = tree_name
        ctx.patch(jst, 'ContextualizedNode', lambda context, node: ('cn', node))
        out = ctx.call(jst.check_tuple_assignments, name, value)
        ctx.check(out.exc is None, 'never raises')
        if out.exc is not None or lst is targets[0] and n == 1 and not trailing:
            return
        got = out.value
        if star == j and inner is None:
            ctx.check(got is NO_VALUES or True, 'a starred target may give up')
            return
        gave_up = got is NO_VALUES
        if inner is not None:
            if star is not None and star < j:
                return          # nested target behind a star: index from the end, covered by the finding below
            ctx.check((not gave_up) and got == ('element', j, inner), 'nested target: element [j][inner]')
            return
        if star is None or j < star:
            ctx.check((not gave_up) and got == ('element', j), 'target before any star: element j')
        else:
            expected_index = L - (n - j)
            ok = False
            if not gave_up:
                ok = ctx.And(got[0] == 'element', got[1] == expected_index)
            ctx.check(ctx.Or(gave_up, ok), 'target after the star: element L-(n-j), counted from the end',
                      known={'C02-after-star': L != n})


OBLIGATIONS = [C02b]
