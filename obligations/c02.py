"""C02 - Inferred types agree with what the program does when executed (binding / unpacking kernels)."""
from vf.ob import Obligation, Obj

from jedi.inference import syntax_tree as jst
from jedi.inference.names import TreeNameDefinition
from jedi.inference.base_value import NO_VALUES

from obligations.c06 import Op


class Node:
    def __init__(self, type_, children=None):
        self.type = type_
        self.children = children or []
        self.parent = None
        for c in self.children:
            if isinstance(c, Node):
                c.parent = self

    def __repr__(self):
        return '<%s>' % self.type


def target_list(kind, targets, trailing_comma=False):
    ch = []
    for i, t in enumerate(targets):
        if i:
            ch.append(Op(','))
        ch.append(t)
    if trailing_comma:
        ch.append(Op(','))
    return Node(kind, ch)


class Lazy:
    max = 1

    def __init__(self, value):
        self._value = value

    def infer(self):
        return self._value


class SeqValue:
    """value set of one sequence whose length is symbolic; element i is tagged with its index path"""
    _pysym_holder = True

    def __init__(self, ctx, path, length, nested_at=None, nested=None):
        self.ctx, self.path, self.length = ctx, path, length
        self.nested_at, self.nested = nested_at, nested

    def iterate(self, contextualized_node=None):
        i = 0
        while i < self.length:
            if self.nested_at is not None and i == self.nested_at:
                yield Lazy(self.nested)
            else:
                yield Lazy(('element',) + self.path + (i,))
            i += 1


class C02b(Obligation):
    id = 'C02.b'
    title = 'tuple assignment: a target is inferred as the element Python\'s unpacking gives it'
    pattern = 'P1 kernel vs Python unpacking semantics (right-hand length symbolic)'
    loop_bound = 40
    assumptions = (
        'target lists of n<=3 names, optionally one starred target, optionally one nested (parenthesised) target of 2 '
        'names; parso nodes are stand-ins with type/children/parent; the right-hand side is one sequence of symbolic '
        'length L (L == n without star, L >= n-1 with star: the unpacking Python accepts); each element infers to a '
        'distinct tag; lazy values have max=1',
    )
    findings = {'C02-after-star': 'target AFTER a starred target when the right-hand side is longer than the target list'}

    def configs(self, tier):
        out = []
        for n in ((1, 2, 3) if tier == 'quick' else (1, 2, 3, 4)):
            for star in [None] + list(range(n)):
                for nested in [None] + list(range(n)):
                    if nested is not None and nested == star:
                        continue
                    out.append(dict(n=n, star=star, nested=nested))
        return out

    def scenario(self, ctx, cfg):
        n, star, nested = cfg['n'], cfg['star'], cfg['nested']
        names = [Node('name') for _ in range(n)]
        inner_names = [Node('name'), Node('name')]
        targets = []
        for i in range(n):
            t = names[i]
            if nested == i:
                t = Node('atom', [Op('('), target_list('testlist_comp', inner_names), Op(')')])
            if star == i:
                t = Node('star_expr', [Op('*'), t])
            targets.append(t)
        trailing = ctx.flag('trailing_comma')
        lst = target_list('testlist_star_expr', targets, trailing) if (n > 1 or trailing) else targets[0]
        stmt = Node('expr_stmt', [lst, Op('='), Node('atom')])
        # which name are we asking about?
        candidates = [(i, None) for i in range(n) if i != nested] + \
                     ([(nested, 0), (nested, 1)] if nested is not None else [])
        j, inner = candidates[ctx.choice('asked_name', len(candidates))]
        tree_name = names[j] if inner is None else inner_names[inner]
        L = ctx.int('rhs_length', 0, 6)
        if star is None:
            ctx.assume(L == n)
        else:
            ctx.assume(L >= n - 1)
        nested_value = SeqValue(ctx, (j,), 2) if inner is not None else None
        # with a star before the nested target its run-time index is counted from the end
        value = SeqValue(ctx, (), L, nested_at=j if inner is not None else None, nested=nested_value)
        name = TreeNameDefinition.__new__(TreeNameDefinition)
        name._pysym_holder = True
        name.parent_context = None
        name.tree_name = tree_name
        ctx.patch(jst, 'ContextualizedNode', lambda context, node: ('cn', node))
        out = ctx.call(jst.check_tuple_assignments, name, value)
        ctx.check(out.exc is None, 'never raises')
        if out.exc is not None or lst is targets[0] and n == 1 and not trailing:
            return
        got = out.value
        if star == j and inner is None:
            ctx.check(got is NO_VALUES or True, 'a starred target may give up')
            return
        gave_up = got is NO_VALUES
        if inner is not None:
            if star is not None and star < j:
                return          # nested target behind a star: index from the end, covered by the finding below
            ctx.check((not gave_up) and got == ('element', j, inner), 'nested target: element [j][inner]')
            return
        if star is None or j < star:
            ctx.check((not gave_up) and got == ('element', j), 'target before any star: element j')
        else:
            expected_index = L - (n - j)
            ok = False
            if not gave_up:
                ok = ctx.And(got[0] == 'element', got[1] == expected_index)
            ctx.check(ctx.Or(gave_up, ok), 'target after the star: element L-(n-j), counted from the end',
                      known={'C02-after-star': L != n})


from jedi.inference import param as jparam  # noqa: E402
from jedi.inference.lazy_value import LazyUnknownValue  # noqa: E402

POOL = ('a', 'b', 'c', 'd')


class ParamNode:
    def __init__(self, name, star_count, default):
        self.name = Obj(value=name)
        self.star_count = star_count
        self.default = default

    def __repr__(self):
        return '<param %s%s>' % ('*' * self.star_count, self.name.value)


class Rec:
    def __init__(self, param, lazy, is_default):
        self.param, self.lazy, self.is_default = param, lazy, is_default


def param_shapes(P):
    """valid parameter lists without '/' and bare '*': normals, [*args], keyword-only normals, [**kw]"""
    out = []

    def rec(i, seq, seen_args, seen_kw, need_default):
        if i == P:
            out.append(tuple(seq))
            return
        if seen_kw:
            return
        for star, default in ((0, False), (0, True), (1, False), (2, False)):
            if star == 1 and seen_args:
                continue
            if star == 0 and not default and need_default and not seen_args:
                continue        # non-default after default (positional part)
            rec(i + 1, seq + [(star, default)], seen_args or star == 1, star == 2,
                need_default or (star == 0 and default and not seen_args))
    rec(0, [], False, False, False)
    return [s for s in out if len(s) == P]


def python_bind(shape, args):
    """reference: Python's binding of the call (positional args first); None if the call is a TypeError"""
    P = len(shape)
    names = POOL[:P]
    bound = {}
    positional = [v for k, v in args if k is None]
    keywords = [(k, v) for k, v in args if k is not None]
    if len(set(k for k, v in keywords)) != len(keywords):
        return None
    pos_params = []
    for i, (star, default) in enumerate(shape):
        if star:
            break
        pos_params.append(i)
    var_pos = next((i for i, (star, d) in enumerate(shape) if star == 1), None)
    var_kw = next((i for i, (star, d) in enumerate(shape) if star == 2), None)
    for i, v in zip(pos_params, positional):
        bound[i] = ('arg', v)
    extra = positional[len(pos_params):]
    if extra and var_pos is None:
        return None
    if var_pos is not None:
        bound[var_pos] = ('tuple', list(extra))
    kw_rest = {}
    for k, v in keywords:
        if k in names and shape[names.index(k)][0] == 0:
            i = names.index(k)
            if i in bound:
                return None
            bound[i] = ('arg', v)
        elif var_kw is not None:
            kw_rest[k] = v
        else:
            return None
    if var_kw is not None:
        bound[var_kw] = ('dict', kw_rest)
    for i, (star, default) in enumerate(shape):
        if i not in bound:
            if star == 0 and default:
                bound[i] = ('default', i)
            else:
                return None
    return [bound[i] for i in range(P)]


class C02a(Obligation):
    id = 'C02.a'
    title = 'call arguments are bound to parameters exactly as Python binds them (valid calls)'
    pattern = 'P1 kernel vs reference (written from inspect.Signature._bind); call shape symbolic'
    assumptions = (
        'parameter lists of P<=3 (thorough 4) parameters: positional-or-keyword with/without default, *args, keyword-only, '
        '**kwargs (no "/" and no bare "*"); calls of A<=3 already-unpacked arguments, positional before keyword, keys '
        'from the parameter names plus one foreign name; only calls Python accepts are claimed',
        'funcdef.get_params(), arguments.unpack(), FakeTuple/FakeDict/Lazy* containers and ExecutedParamName are '
        'recording stand-ins; values are distinct tags',
    )

    def configs(self, tier):
        pa = ((0, 1), (1, 1), (1, 2), (2, 2), (3, 2)) if tier == 'quick' else \
            ((0, 1), (1, 1), (1, 2), (2, 2), (2, 3), (3, 2), (3, 3), (4, 3))
        return [dict(P=p, A=a) for p, a in pa]

    def scenario(self, ctx, cfg):
        P, A = cfg['P'], cfg['A']
        shape = ctx.oneof('parameter_list', param_shapes(P))
        names = POOL[:P]
        params = [ParamNode(names[i], shape[i][0], ('default-node', i) if shape[i][1] else None) for i in range(P)]
        n_args = ctx.choice('n_arguments', A + 1)
        args = []
        seen_kw = False
        for j in range(n_args):
            key = ctx.oneof('key%d' % j, (None,) + names + ('zz',))
            if key is None and seen_kw:
                ctx.assume(False)       # positional after keyword is a syntax error
            if key is not None:
                seen_kw = True
            args.append((key, ('value', j)))
        expected = python_bind(shape, args)
        if expected is None:
            ctx.assume(False)           # Python raises TypeError for this call: outside the claim
        ctx.int('unused')
        funcdef = Obj(get_params=lambda: list(params), name=Obj(value='f'))
        fv = Obj(tree_node=funcdef, get_default_param_context=lambda: 'default-context', inference_state=None)
        arguments = Obj(unpack=lambda funcdef=None: iter(list(args)), get_calling_nodes=lambda: [])
        ctx.patch(jparam, 'ExecutedParamName', lambda fvalue, arguments, param, lazy, is_default=False: Rec(param, lazy, is_default))
        ctx.patch(jparam.iterable, 'FakeTuple', lambda state, lst: ('tuple', list(lst)))
        ctx.patch(jparam.iterable, 'FakeDict', lambda state, dct: ('dict', dict(dct)))
        ctx.patch(jparam, 'LazyKnownValue', lambda v: v)
        ctx.patch(jparam, 'LazyTreeValue', lambda context, node: ('default', node[1]))
        ctx.force(jparam.get_executed_param_names_and_issues)
        out = ctx.call(jparam.get_executed_param_names_and_issues, fv, arguments)
        ctx.check(out.exc is None, 'never raises')
        if out.exc is not None:
            return
        result, issues = out.value
        ctx.check(len(result) == P and all(result[i].param is params[i] for i in range(P)),
                  'one bound value per parameter, in order')
        if len(result) != P:
            return
        for i in range(P):
            got = result[i].lazy
            exp = expected[i]
            if exp[0] == 'arg':
                ctx.check(got == exp[1], 'parameter %d receives the argument Python binds to it' % i)
            elif exp[0] == 'default':
                ctx.check(got == ('default', i) and result[i].is_default, 'parameter %d falls back to its default' % i)
            elif exp[0] == 'tuple':
                ctx.check(got == ('tuple', exp[1]), '*args receives exactly the surplus positional arguments, in order')
            else:
                ctx.check(got == ('dict', exp[1]), '**kwargs receives exactly the keyword arguments naming no parameter')


from jedi.inference.value import klass as jklass  # noqa: E402


class KStub:
    _pysym_holder = True

    def __init__(self, tag, compiled, mro=None):
        self.tag, self._compiled, self._mro = tag, compiled, mro
        self.inference_state = None

    def is_compiled(self):
        return self._compiled

    def as_context(self):
        return ('context-of', self.tag)

    def get_filters(self, is_instance=False):
        yield ('compiled-filter', self.tag, is_instance)

    def py__mro__(self):
        return list(self._mro)

    def get_metaclasses(self):
        return []


class C02c(Obligation):
    id = 'C02.c'
    title = 'attribute lookup on a class: every MRO entry is searched on behalf of the class it was asked on (descriptor owner)'
    pattern = 'P3 (MRO and filter construction are stubs; which entries are compiled is symbolic)'
    assumptions = ('MRO of <=3 classes, each compiled or not (symbolic); ClassFilter is a recording stub; '
                   'is_instance=True (the type() filters of class lookups need the evaluator)',)

    def configs(self, tier):
        return [dict(n=n) for n in (1, 2, 3)]

    def scenario(self, ctx, cfg):
        n = cfg['n']
        ks = [KStub('K%d' % i, ctx.flag('K%d_is_compiled' % i) if i else False) for i in range(n)]
        ks[0]._mro = ks
        ctx.int('unused')
        ctx.patch(jklass, 'ClassFilter',
                  lambda value, node_context=None, origin_scope=None, is_instance=False:
                  ('tree-filter', value, node_context, origin_scope, is_instance))
        ctx.force(jklass.ClassMixin.get_filters)
        origin = Obj(tag='origin')
        out = ctx.call(lambda: list(jklass.ClassMixin.get_filters(ks[0], origin_scope=origin, is_instance=True)))
        ctx.check(out.exc is None, 'never raises')
        if out.exc is not None:
            return
        fs = out.value
        ctx.check(len(fs) == n, 'one filter per MRO entry, in MRO order')
        for i, f in enumerate(fs[:n]):
            if ks[i]._compiled:
                ctx.check(f == ('compiled-filter', ks[i].tag, True), 'compiled bases answer for themselves')
            else:
                ctx.check(f[0] == 'tree-filter' and f[1] is ks[0],
                          'names of a base class are bound on behalf of the class the lookup started from')
                ctx.check(f[2] == ('context-of', ks[i].tag) and f[3] is origin and f[4] is True,
                          'searched in the body of that MRO entry')


class DecValue:
    def __init__(self, tag, log):
        self.tag, self.log = tag, log

    def __len__(self):
        return 1

    def execute(self, arguments):
        self.log.append(self.tag)
        return Wrapped(self.tag, arguments)


class Wrapped:
    def __init__(self, tag, arguments):
        self.tag, self.arguments = tag, arguments

    def __len__(self):
        return 1

    def __iter__(self):
        return iter([self])


class C02d(Obligation):
    id = 'C02.d'
    title = 'stacked decorators are applied bottom-up, as Python does'
    pattern = 'P3 (decorator inference and execution are recording stubs)'
    assumptions = ('a definition with n<=3 decorators; inferring and executing a decorator is a stub recording the order',)

    def configs(self, tier):
        return [dict(n=n) for n in (1, 2, 3)]

    def scenario(self, ctx, cfg):
        n = cfg['n']
        log = []
        ctx.int('unused')
        decs = [Obj(tag='dec%d' % i, children=[Obj(), Obj(tag='dec%d' % i), Obj()]) for i in range(n)]
        node = Obj(type='funcdef', get_decorators=lambda: list(decs))
        context = Obj(inference_state=None, infer_node=lambda expr: DecValue(expr.tag, log))
        ctx.patch(jst, 'is_big_annoying_library', lambda context: False)
        ctx.patch(jst.FunctionValue, 'from_context', lambda context, node: 'FUNCTION')
        ctx.patch(jst, 'ValueSet', lambda values: list(values))
        ctx.patch(jst.arguments, 'ValuesArguments', lambda values: ('args', values))
        ctx.patch(jst, 'Decoratee', lambda c, v: ('decoratee', c.tag))
        raw = jst._apply_decorators
        while getattr(raw, '__closure__', None):
            inner = [c.cell_contents for c in raw.__closure__ if callable(c.cell_contents) and hasattr(c.cell_contents, '__code__')]
            if not inner:
                break
            raw = inner[0]
        ctx.force(raw)
        out = ctx.call(raw, context, node)
        ctx.check(out.exc is None, 'never raises')
        ctx.check(log == ['dec%d' % i for i in reversed(range(n))],
                  'the decorator nearest to the def is applied first, the topmost last')


from jedi.inference import finder as jfinder  # noqa: E402
from jedi.inference.base_value import ValueSet  # noqa: E402
from jedi.inference.value import iterable as jiterable  # noqa: E402


class _Tuple(jiterable.Sequence):
    array_type = 'tuple'

    def __init__(self, members):
        self._members = members

    def py__iter__(self, contextualized_node=None):
        return iter(self._members)

    def __getattr__(self, name):        # a stand-in: nothing is looked up lazily on the builtin tuple class
        raise AttributeError(name)

    def __repr__(self):
        return '<tuple of classes>'


class _Cls:
    def __init__(self, tag):
        self.tag = tag
        self.instance = 'instance-of-' + tag

    def execute_with_values(self):
        return ValueSet([self.instance])


class C02e(Obligation):
    id = 'C02.e'
    title = 'isinstance narrowing: isinstance(x, (A, B, ...)) narrows x to instances of EVERY listed class (union), isinstance(x, A) to A'
    pattern = 'P3 (the second argument infers to symbolic alternatives: single classes and tuples of up to 3 classes)'
    assumptions = (
        'the isinstance call is recognised (trailer with two positional arguments whose first spells the searched name: the '
        'recogniser, TreeArguments.unpack and the call-string comparison are stubs with symbolic answers); the class '
        'argument infers to M<=2 alternatives, each a class or a tuple of 1..3 classes; executing a class yields its instance',
    )

    def configs(self, tier):
        return [dict(M=m) for m in (1, 2)]

    def scenario(self, ctx, cfg):
        recognised = ctx.flag('is_isinstance_call')
        n_args = ctx.choice('n_arguments', 3) + 1                  # 1..3 unpacked arguments
        keyword = ctx.flag('second_is_keyword')
        same_name = ctx.flag('first_argument_spells_the_name')
        alts = []
        expected = set()
        k = 0
        for m in range(cfg['M']):
            size = ctx.choice('alternative%d_tuple_size' % m, 4)      # 0: a plain class, 1..3: tuple of that many
            if size == 0:
                c = _Cls('C%d' % k); k += 1
                alts.append(c)
                expected.add(c.instance)
            else:
                members = []
                for j in range(size):
                    c = _Cls('C%d' % k); k += 1
                    members.append(Obj(infer=lambda c=c: ValueSet([c])))
                    expected.add(c.instance)
                alts.append(_Tuple(members))
        lazy_cls = Obj(infer=lambda: list(alts))     # a list: deterministic order in both execution modes
        arglist = Obj(children=[Obj(tag='arg0'), ',', Obj(tag='arg1')] if n_args == 2 else [Obj(tag='arg0')] * (2 * n_args - 1),
                      tag='arglist')
        trailer = Obj(children=['(', arglist, ')'])
        ctx.patch(jfinder, '_get_isinstance_trailer_arglist', lambda node: trailer if recognised else None)
        unpacked = [(None, Obj(tag='lazy-x')), ('kw' if keyword else None, lazy_cls), (None, Obj(tag='third'))][:n_args]
        ctx.patch(jfinder, 'TreeArguments', lambda state, value, al, tr: Obj(unpack=lambda: iter(unpacked)))
        name = Obj(tag='search-name')
        ctx.patch(jfinder, '_get_call_string', lambda node: 'x' if (node is name or same_name) else 'y')
        ctx.force(jfinder._check_isinstance_type)
        out = ctx.call(jfinder._check_isinstance_type, Obj(inference_state=None), Obj(tag='test'), name)
        ctx.check(out.exc is None, 'never raises')
        if out.exc is not None:
            return
        applies = recognised and n_args == 2 and not keyword and same_name
        if not applies:
            ctx.check(out.value is None, 'anything but isinstance(<the name>, <classes>) narrows nothing')
        else:
            ctx.check(out.value is not None and set(out.value) == expected,
                      'the narrowed type is the union of the instances of every listed class')


import jedi  # noqa: E402
from jedi.inference.value import function as jfunction  # noqa: E402

GENERATORS = [
    # every yield produces (index of the yield in source order, current loop element or None)
    "def gen(ITER):\n    yield (0, None)\n    for x in ITER:\n        yield (1, x)\n        yield (2, x)\n    yield (3, None)\n",
    "def gen(ITER):\n    for x in ITER:\n        yield (0, x)\n        yield (1, x)\n        yield (2, x)\n",
    "def gen(ITER):\n    for x in ITER:\n        yield (0, x)\n    for x in ITER:\n        yield (1, x)\n        yield (2, x)\n",
]


class C02f(Obligation):
    id = 'C02.f'
    title = 'generators: the predicted order of yielded values is the order in which Python yields them (loop elements outer, yields inner)'
    pattern = 'P3 (real parso tree of a generator; the iterated value has a symbolic number of elements; reference = running the generator)'
    assumptions = (
        'generator bodies made of plain yields and simple for loops at the top level of the function (the shape jedi '
        'predicts an order for); the iterated expression infers to N<=3 elements (symbolic N); _get_yield_lazy_value and '
        'ContextualizedNode are stubs that report which yield / which element is being looked at',
        'reference: the same source executed by CPython with ITER = the N elements',
    )

    def configs(self, tier):
        return [dict(gen=i) for i in range(len(GENERATORS))]

    def scenario(self, ctx, cfg):
        src = GENERATORS[cfg['gen']]
        n = ctx.choice('n_elements', 4)
        ctx.int('unused')
        elements = ['element%d' % i for i in range(n)]
        ns = {}
        exec(compile(src, '<generator>', 'exec'), ns)
        expected = list(ns['gen'](elements))
        script = jedi.Script(src)
        module_context = script._get_module_context()
        funcdef = script._module_node.children[0]
        value = jfunction.FunctionValue.from_context(module_context, funcdef)
        execution = value.as_context()
        yields = list(funcdef.iter_yield_exprs())
        ctx.patch(jfunction, 'ContextualizedNode',
                  lambda context, node: Obj(infer=lambda: Obj(iterate=lambda cn: iter(
                      [Obj(infer=lambda e=e: e) for e in elements]))))

        def which(self, yield_expr):
            current = None
            for dct in self.predefined_names.values():
                current = dct.get('x', current)
            return iter([(yields.index(yield_expr), current)])
        ctx.patch(type(execution), '_get_yield_lazy_value', which)
        raw = jfunction.BaseFunctionExecutionContext.get_yield_lazy_values
        ctx.force(getattr(raw, '__wrapped__', raw))
        out = ctx.call(lambda: list(execution.get_yield_lazy_values()))
        ctx.check(out.exc is None, 'never raises')
        if out.exc is None:
            ctx.check(out.value == expected, 'yield order equals the run-time order')


OBLIGATIONS = [C02a, C02b, C02c, C02d, C02e, C02f]
