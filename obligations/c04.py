"""C04 - Completions extend what is typed, are ordered, unique and complete (the algebra)."""
from vf.ob import Obligation, Obj

from jedi import settings
from jedi.api import helpers, classes
from jedi.api import completion as jcompletion

ALPHABET = 'aAb_İ'      # U+0130 (capital I with dot) lower-cases to TWO characters


def char_at(s, i):
    return s[i:i + 1]


def is_subsequence(ctx, like, string, nl, ns):
    """reference: `like` (length <= nl) is a subsequence of `string` (length <= ns); textbook DP,
    written without branching so that it is one formula"""
    # ok[i][j]: like[i:] is a subsequence of string[j:]
    ok = [[None] * (ns + 2) for _ in range(nl + 2)]
    for j in range(ns + 1, -1, -1):
        ok[nl + 1][j] = True
    for i in range(nl, -1, -1):
        done = ctx.len(like) <= i           # like[i:] is empty
        for j in range(ns + 1, -1, -1):
            if j > ns:
                ok[i][j] = done
                continue
            here = ctx.And(ctx.len(string) > j, char_at(like, i) == char_at(string, j))
            ok[i][j] = ctx.Or(done, ctx.And(here, ok[i + 1][j + 1]), ctx.And(ctx.len(string) > j, ok[i][j + 1]))
    return ok[0][0]


class C04a(Obligation):
    id = 'C04.a'
    title = 'match predicates: non-fuzzy <=> prefix, fuzzy <=> subsequence'
    pattern = 'P1 kernel vs reference model'
    assumptions = ('strings over the alphabet %r with |string|<=S, |like|<=L' % ALPHABET,)

    def configs(self, tier):
        if tier == 'quick':
            return [dict(S=4, L=2), dict(S=3, L=3)]
        return [dict(S=5, L=2), dict(S=4, L=3), dict(S=4, L=2)]

    def scenario(self, ctx, cfg):
        string = ctx.str('string', maxlen=cfg['S'], alphabet=ALPHABET)
        like = ctx.str('like', maxlen=cfg['L'], alphabet=ALPHABET)
        out = ctx.call(helpers.match, string, like, fuzzy=False)
        ctx.check(out.exc is None, 'match never raises')
        if out.exc is None:
            ctx.check(ctx.iff(out.value, string.startswith(like)), 'non-fuzzy match <=> the name starts with the fragment')
        out = ctx.call(helpers.match, string, like, fuzzy=True)
        ctx.check(out.exc is None, 'fuzzy match never raises')
        if out.exc is None:
            ctx.check(ctx.iff(out.value, is_subsequence(ctx, like, string, cfg['L'], cfg['S'])),
                      'fuzzy match <=> the fragment is a subsequence of the name')


class NameStub:
    """stand-in for an inference name offered as a completion"""
    _pysym_holder = True
    tree_name = None
    api_type = 'statement'

    def __init__(self, string_name):
        self.string_name = string_name

    def get_public_name(self):
        return self.string_name


class C04b(Obligation):
    id = 'C04.b'
    title = 'filter + algebra: every completion matches, complete is the missing suffix, prefix length is the fragment length, no duplicate'
    pattern = 'P1/P3 (candidate names are stubs)'
    sym_containers = True
    assumptions = (
        'identifiers over the alphabet %r (contains U+0130 whose lower() has length 2); |fragment|<=L, |name|<=N; '
        'str.lower() is modelled exactly, character by character, for this alphabet' % ALPHABET,
        'settings.add_bracket_after_function is False (default); candidates are not del-statements and not imported names',
    )
    findings = {'C04-lower-length': 'fragment whose lower-cased form has another length (e.g. U+0130)'}
    z3_timeout = 6.0

    def configs(self, tier):
        out = []
        for ci in (True, False):
            out += [dict(m=1, L=2, N=3, fuzzy=False, ci=ci), dict(m=2, L=1, N=2, fuzzy=False, ci=ci)]
        out += [dict(m=1, L=2, N=3, fuzzy=True, ci=False), dict(m=2, L=1, N=2, fuzzy=True, ci=True)]
        if tier == 'thorough':
            for ci in (True, False):
                out += [dict(m=1, L=3, N=4, fuzzy=False, ci=ci), dict(m=3, L=1, N=2, fuzzy=False, ci=ci),
                        dict(m=2, L=2, N=3, fuzzy=False, ci=ci)]
            out += [dict(m=1, L=2, N=2, fuzzy=True, ci=True), dict(m=2, L=2, N=3, fuzzy=True, ci=False)]
        return out

    def scenario(self, ctx, cfg):
        ctx.patch(settings, 'case_insensitive_completion', cfg['ci'])
        ctx.patch(settings, 'add_bracket_after_function', False)
        like = ctx.str('like', maxlen=cfg['L'], alphabet=ALPHABET)
        names = [ctx.str('name%d' % i, maxlen=cfg['N'], alphabet=ALPHABET) for i in range(cfg['m'])]
        fuzzy = cfg['fuzzy']
        cands = [NameStub(n) for n in names]
        out = ctx.call(lambda: list(jcompletion.filter_names(None, cands, None, like, fuzzy, set(), None)))
        ctx.check(out.exc is None, 'filter_names never raises')
        if out.exc is not None:
            return
        comps = out.value
        known = {'C04-lower-length': ctx.len(like.lower()) != ctx.len(like) if cfg['ci'] else False}
        keys = []
        for c in comps:
            name = c.name
            src = [n for n in cands if n is c._name]
            ctx.check(len(src) == 1, 'every completion comes from a candidate')
            # it matches what was typed
            a, b = (name.lower(), like.lower()) if cfg['ci'] else (name, like)
            if fuzzy:
                ctx.check(c.complete is None, 'complete is None for fuzzy completions')
                ctx.check(is_subsequence(ctx, b, a, 2 * cfg['L'], 2 * cfg['N']),
                          'fuzzy: the fragment is a subsequence of the name')
            else:
                ctx.check(a.startswith(b), 'the name starts with the typed fragment')
                ctx.check(c.get_completion_prefix_length() == ctx.len(like),
                          'prefix length == length of the typed fragment', known=known)
                comp = c.complete
                ctx.check(comp is not None, 'complete is a string for non-fuzzy completions')
                if comp is not None:
                    ctx.check(c.name_with_symbols == name[:ctx.len(like)] + comp,
                              'name_with_symbols == typed part + complete', known=known)
            keys.append((name, c.complete))
        for i in range(len(keys)):
            for j in range(i):
                if fuzzy:
                    ctx.check(keys[i][0] != keys[j][0], 'no (name, complete) pair twice')
                else:
                    ctx.check(ctx.Not(ctx.And(keys[i][0] == keys[j][0], keys[i][1] == keys[j][1])),
                              'no (name, complete) pair twice')
        # completeness of the filter: a matching candidate is offered (once)
        for k, n in enumerate(cands):
            a, b = (names[k].lower(), like.lower()) if cfg['ci'] else (names[k], like)
            matches = is_subsequence(ctx, b, a, 2 * cfg['L'], 2 * cfg['N']) if fuzzy else a.startswith(b)
            offered = ctx.Or(*[c.name == names[k] for c in comps]) if comps else False
            ctx.check(ctx.implies(matches, offered), 'every matching candidate is offered')


def rank(ctx, name, like):
    return (ctx.Not(name.startswith(like)), name.startswith('__'), name.startswith('_'), name.lower())


class C04c(Obligation):
    id = 'C04.c'
    title = 'order: matching case first, then public, _private, __dunder__, then case-insensitive alphabetical'
    pattern = 'P1 (Completion.complete with the inference parts stubbed)'
    sym_containers = True
    assumptions = (
        'identifiers over the alphabet %r, |fragment|<=1, |name|<=3, 2 or 3 candidates' % ALPHABET,
        'the completion sources (_complete_python, complete_dict, string completion) are stubs returning the candidates',
    )
    z3_timeout = 8.0

    def configs(self, tier):
        return [dict(m=2, N=3)] if tier == 'quick' else [dict(m=2, N=3), dict(m=3, N=2)]

    def scenario(self, ctx, cfg):
        ctx.patch(settings, 'case_insensitive_completion', True)
        ctx.patch(settings, 'add_bracket_after_function', False)
        like = ctx.str('like', maxlen=1, alphabet='aA_')
        names = [ctx.str('name%d' % i, maxlen=cfg['N'], alphabet='aAb_') for i in range(cfg['m'])]
        for i in range(cfg['m']):
            for j in range(i):
                ctx.assume(names[i] != names[j])
        cands = [NameStub(n) for n in names]
        comp = jcompletion.Completion.__new__(jcompletion.Completion)
        comp._pysym_holder = True
        leaf = Obj(parent=None)
        comp._module_node = Obj(get_leaf_for_position=lambda pos, include_prefixes=False: leaf)
        comp._original_position = (1, 0)
        comp._module_context = None
        comp._code_lines = []
        comp._fuzzy = False
        comp._like_name = like
        comp._inference_state = None
        comp.stack = None
        comp._signatures_callback = None
        comp._complete_python = lambda leaf: (None, cands)
        ctx.patch(jcompletion, '_extract_string_while_in_string', lambda leaf, pos: (None, None, None))
        ctx.patch(jcompletion, 'complete_dict', lambda *a, **k: [])
        out = ctx.call(jcompletion.Completion.complete, comp)
        ctx.check(out.exc is None, 'complete() never raises')
        if out.exc is not None:
            return
        res = out.value
        for i in range(len(res) - 1):
            ra, rb = rank(ctx, res[i].name, like), rank(ctx, res[i + 1].name, like)
            # documented order: lexicographic on (case mismatch, dunder, private, lower-cased name)
            le = ctx.Or(ctx.And(ctx.Not(ra[0]), rb[0]),
                        ctx.And(ctx.iff(ra[0], rb[0]), ctx.Or(
                            ctx.And(ctx.Not(ra[1]), rb[1]),
                            ctx.And(ctx.iff(ra[1], rb[1]), ctx.Or(
                                ctx.And(ctx.Not(ra[2]), rb[2]),
                                ctx.And(ctx.iff(ra[2], rb[2]), ra[3] <= rb[3]))))))
            ctx.check(le, 'completions are in the documented order')


from obligations.c15 import C15f  # noqa: E402


class C04d(C15f):
    id = 'C04.d'
    title = 'attribute sources: the class MRO used for "obj." completion lists the class and every ancestor exactly once'


import io  # noqa: E402
import tokenize  # noqa: E402

import jedi  # noqa: E402

FRAGMENT_CORPUS = [
    'import os\nvalue = not flag\nfor item in items:\n    if item is None or item.attr:\n        return_code = item\n'
    'def func(arg):\n    return arg and func\nclass Klass: pass\n',
]


class C04e(Obligation):
    id = 'C04.e'
    title = 'the completion fragment is exactly the part of the identifier OR keyword in front of the cursor'
    pattern = 'P4 concrete tree x symbolic cursor; reference from CPython tokenize'
    interpret_modules = ('jedi', 'parso', 'obligations')
    loop_bound = 400
    max_paths = 6000
    assumptions = ('a valid corpus file with identifiers and keywords; the cursor is symbolic, inside or directly behind a '
                   'NAME token (tokenize counts keywords as NAME); helpers.get_on_completion_name is interpreted',)

    def scenario(self, ctx, cfg):
        src = FRAGMENT_CORPUS[0]
        script = jedi.Script(src)
        toks = [(t.start[0], t.start[1], t.end[1], t.string)
                for t in tokenize.generate_tokens(io.StringIO(src).readline) if t.type == tokenize.NAME]
        line = ctx.int('line')
        column = ctx.int('column')
        ctx.assume(ctx.Or(*[ctx.And(line == l, c0 < column, column <= c1) for l, c0, c1, s in toks]))
        out = ctx.call(helpers.get_on_completion_name, script._module_node, script._code_lines, (line, column))
        ctx.check(out.exc is None, 'never raises')
        if out.exc is not None:
            return
        got = out.value
        wrong = [ctx.And(line == l, column == c0 + k)
                 for l, c0, c1, s in toks for k in range(1, len(s) + 1) if s[:k] != got]
        ctx.check(ctx.Not(ctx.Or(*wrong)) if wrong else True, 'fragment == the token text up to the cursor')


from jedi.inference.value import instance as jinstance  # noqa: E402
from jedi.inference.value.klass import ClassFilter  # noqa: E402
from jedi.inference.compiled.value import CompiledValueFilter  # noqa: E402


class C04f(Obligation):
    id = 'C04.f'
    title = 'attribute sources of an instance: self-attributes of EVERY source-defined class of the MRO, wherever compiled classes sit in it; class filters wrapped per kind'
    pattern = 'P3 (MRO of K classes with symbolic compiled/source flags; filter constructors are recording stubs)'
    assumptions = (
        'the MRO has K<=4 entries with symbolic is_compiled answers; class_value.get_filters yields one filter per MRO '
        'entry whose kind (ClassFilter / CompiledValueFilter / other) is symbolic; SelfAttributeFilter, '
        'InstanceClassFilter and CompiledInstanceClassFilter are recording stubs',
    )

    def configs(self, tier):
        return [dict(K=k) for k in ((2, 3) if tier == 'quick' else (1, 2, 3, 4))]

    def scenario(self, ctx, cfg):
        K = cfg['K']
        compiled = [ctx.flag('class%d_is_compiled' % i) for i in range(K)]
        kinds = [ctx.choice('class_filter%d_kind' % i, 3) for i in range(K)]
        mro = [Obj(tag='class%d' % i, is_compiled=(lambda c=compiled[i]: c), as_context=(lambda i=i: 'context%d' % i))
               for i in range(K)]
        cf = []
        for i in range(K):
            if kinds[i] == 0:
                f = ClassFilter.__new__(ClassFilter)
            elif kinds[i] == 1:
                f = CompiledValueFilter.__new__(CompiledValueFilter)
            else:
                f = Obj(tag='metaclass-filter%d' % i)
            cf.append(f)
        asked = []

        def get_filters(origin_scope=None, is_instance=False):
            asked.append(is_instance)
            return iter(cf)
        class_value = Obj(py__mro__=lambda: iter(mro), get_filters=get_filters)
        inst = jinstance._BaseTreeInstance.__new__(jinstance._BaseTreeInstance)
        inst._pysym_holder = True
        inst.get_annotated_class_object = lambda: class_value
        ctx.patch(jinstance, 'SelfAttributeFilter', lambda i, cv, c, o: ('self-attributes', c))
        ctx.patch(jinstance, 'InstanceClassFilter', lambda i, f: ('instance-class', f))
        ctx.patch(jinstance, 'CompiledInstanceClassFilter', lambda i, f: ('compiled-instance-class', f))
        ctx.force(jinstance._BaseTreeInstance.get_filters)
        out = ctx.call(lambda: list(jinstance._BaseTreeInstance.get_filters(inst)))
        ctx.check(out.exc is None, 'never raises')
        if out.exc is not None:
            return
        expected = [('self-attributes', 'context%d' % i) for i in range(K) if not compiled[i]]
        for i in range(K):
            expected.append([('instance-class', cf[i]), ('compiled-instance-class', cf[i]), cf[i]][kinds[i]])
        got = out.value
        ctx.check(len(got) == len(expected) and all(a is b or (isinstance(a, tuple) and isinstance(b, tuple) and a[0] == b[0] and a[1] is b[1] or a == b)
                                                     for a, b in zip(got, expected)),
                  'self-attribute filters for exactly the source-defined MRO classes (in MRO order), then the class filters')
        ctx.check(asked == [True], 'the class filters are requested once, for an instance')
        out2 = ctx.call(lambda: list(jinstance._BaseTreeInstance.get_filters(inst, include_self_names=False)))
        ctx.check(out2.exc is None and len(out2.value) == K, 'include_self_names=False drops exactly the self-attribute filters')


OBLIGATIONS = [C04a, C04b, C04c, C04d, C04e, C04f]
