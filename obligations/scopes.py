"""Reference scoping of Python source from CPython's ast (shared by the P4 obligations of C03/C17/C18)."""
import ast
import io
import keyword
import tokenize

SCOPE_CORPUS = [
    '''import os
limit = 10

def outer(a, *args, key=limit, **kw):
    total = [x * key for x in args if x]
    table = {k: v for k, v in kw.items()}
    pairs = {(i, j) for i in a for j in args}
    def inner(b: int = a, *rest: str) -> dict:
        return lambda q=b: (q, rest, table)
    return inner, total, pairs

class Box(outer):
    size = limit
    def get(self, n=size):
        class Local:
            val = n
            def read(me):
                return (me.val, n, size)
        return Local
    gen = (s for s in range(size))

@outer(limit)
def decorated(x, y=os.sep):
    return [[c for c in row] for row in x]
''',
]


def _label(node):
    if isinstance(node, ast.Module):
        return 'module'
    if isinstance(node, ast.ClassDef):
        return 'class:' + node.name
    if isinstance(node, (ast.FunctionDef, ast.AsyncFunctionDef)):
        return 'function:' + node.name
    if isinstance(node, ast.Lambda):
        return 'lambda'
    return 'comprehension'


def name_scopes(src):
    """{(line, col): (chain, binds)} for every identifier token that is an ast.Name or ast.arg:
    chain = the scopes Python consults for a name used there, innermost first (class bodies are skipped
    for nested scopes); binds = the token binds the name (Store / parameter)"""
    tree = ast.parse(src)
    out = {}

    def chain_of(stack):
        inner = stack[-1]
        rest = [s for s in stack[:-1] if not isinstance(s, ast.ClassDef)]
        return tuple(_label(s) for s in [inner] + rest[::-1])

    def visit(node, stack, extra=None):
        """extra: label of a scope jedi may additionally consult first (first iterable of a comprehension,
        default of a lambda): its bindings lie behind the use, so they are never found there"""
        if isinstance(node, ast.Name):
            in_class_comp = isinstance(stack[-1], (ast.ListComp, ast.SetComp, ast.DictComp, ast.GeneratorExp)) and \
                any(isinstance(s, ast.ClassDef) for s in stack[:-1]) and \
                isinstance([s for s in stack if not isinstance(s, (ast.ListComp, ast.SetComp, ast.DictComp,
                                                                   ast.GeneratorExp))][-1], ast.ClassDef)
            out[(node.lineno, node.col_offset)] = (chain_of(stack), isinstance(node.ctx, ast.Store), extra, in_class_comp)
            return
        if extra is not None and not isinstance(node, (ast.FunctionDef, ast.AsyncFunctionDef, ast.Lambda, ast.ClassDef,
                                                        ast.ListComp, ast.SetComp, ast.DictComp, ast.GeneratorExp)):
            for ch in ast.iter_child_nodes(node):
                visit(ch, stack, extra)
            return
        if isinstance(node, (ast.FunctionDef, ast.AsyncFunctionDef, ast.Lambda)):
            a = node.args
            for d in list(a.defaults) + [d for d in a.kw_defaults if d is not None]:
                visit(d, stack, 'lambda' if isinstance(node, ast.Lambda) else None)
            allargs = a.posonlyargs + a.args + a.kwonlyargs + ([a.vararg] if a.vararg else []) + ([a.kwarg] if a.kwarg else [])
            if not isinstance(node, ast.Lambda):
                for d in node.decorator_list:
                    visit(d, stack)
                for arg in allargs:
                    if arg.annotation is not None:
                        visit(arg.annotation, stack)
                if node.returns is not None:
                    visit(node.returns, stack)
            inner = stack + [node]
            for arg in allargs:
                out[(arg.lineno, arg.col_offset)] = (chain_of(inner), True, None, False)
            body = node.body if isinstance(node.body, list) else [node.body]
            for b in body:
                visit(b, inner)
            return
        if isinstance(node, ast.ClassDef):
            for b in node.bases + [k.value for k in node.keywords] + node.decorator_list:
                visit(b, stack)
            for b in node.body:
                visit(b, stack + [node])
            return
        if isinstance(node, (ast.ListComp, ast.SetComp, ast.DictComp, ast.GeneratorExp)):
            gens = node.generators
            visit(gens[0].iter, stack, 'comprehension')
            inner = stack + [node]
            for i, g in enumerate(gens):
                visit(g.target, inner)
                if i:
                    visit(g.iter, inner)
                for c in g.ifs:
                    visit(c, inner)
            if isinstance(node, ast.DictComp):
                visit(node.key, inner)
                visit(node.value, inner)
            else:
                visit(node.elt, inner)
            return
        for ch in ast.iter_child_nodes(node):
            visit(ch, stack)
    visit(tree, [tree])
    return out


def identifier_tokens(src):
    return [(t.start[0], t.start[1], t.end[1], t.string)
            for t in tokenize.generate_tokens(io.StringIO(src).readline)
            if t.type == tokenize.NAME and not keyword.iskeyword(t.string)]


def jedi_chain(context):
    out = []
    c = context
    while c is not None:
        n = c.tree_node
        t = n.type
        if t == 'file_input':
            out.append('module')
        elif t == 'classdef':
            out.append('class:' + n.name.value)
        elif t == 'funcdef':
            out.append('function:' + n.name.value)
        elif t == 'lambdef':
            out.append('lambda')
        else:
            out.append('comprehension')
        c = c.parent_context
    return tuple(out)


def definition_parents(src):
    """{(line, col): (name, parent_label)} for definition tokens: def/class names, parameters, plain assignment
    targets; parent_label = the lexically enclosing def/class ('module' otherwise); for a parameter: its function"""
    tree = ast.parse(src)
    toks = [t for t in tokenize.generate_tokens(io.StringIO(src).readline) if t.type == tokenize.NAME]
    out = {}

    def lex_label(stack):
        for s in reversed(stack):
            if isinstance(s, (ast.FunctionDef, ast.AsyncFunctionDef, ast.ClassDef)):
                return _label(s)
        return 'module'

    def visit(node, stack):
        for ch in ast.iter_child_nodes(node):
            if isinstance(ch, (ast.FunctionDef, ast.AsyncFunctionDef, ast.ClassDef)):
                kw = [i for i, t in enumerate(toks) if t.start >= (ch.lineno, ch.col_offset)
                      and t.string in ('def', 'class')][0]
                out[toks[kw + 1].start] = (ch.name, lex_label(stack))
                if not isinstance(ch, ast.ClassDef):
                    a = ch.args
                    for arg in a.posonlyargs + a.args + a.kwonlyargs + ([a.vararg] if a.vararg else []) + ([a.kwarg] if a.kwarg else []):
                        out[(arg.lineno, arg.col_offset)] = (arg.arg, _label(ch))
                visit(ch, stack + [ch])
            elif isinstance(ch, ast.Lambda) or isinstance(ch, (ast.ListComp, ast.SetComp, ast.DictComp, ast.GeneratorExp)):
                continue        # parameters / targets of anonymous scopes: not part of the claim
            else:
                if isinstance(ch, ast.Assign):
                    for t in ch.targets:
                        if isinstance(t, ast.Name):
                            out[(t.lineno, t.col_offset)] = (t.id, lex_label(stack))
                visit(ch, stack)
    visit(tree, [])
    return out
