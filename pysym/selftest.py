"""Differential self-test of the pysym library models against the real CPython builtins.

Every model is run on symbolic variables pinned (by an equality in the path condition) to concrete
boundary / pseudo-random values; the value of the symbolic result under the solver's model must
equal what CPython computes.  A disagreement fails the setup.
"""
import itertools
import os
import pathlib
import random
import sys
import time

import pysym  # noqa: F401
import z3

from pysym import core, models
from pysym.core import Engine, SStr, SInt, Sym


def evaluate(sym_fn, values):
    """run sym_fn on symbolic copies of the concrete `values`; return the list of concretised
    outcomes over all paths (normally one)"""
    eng = Engine(max_paths=50)
    outs = []

    def h():
        args = []
        for i, v in enumerate(values):
            if isinstance(v, str):
                s = eng.new_str('a%d' % i)
                eng.add(s.e == core.zstrval(v))
                args.append(s)
            elif isinstance(v, bool) or not isinstance(v, int):
                args.append(v)
            else:
                n = eng.new_int('a%d' % i)
                eng.add(n.e == v)
                args.append(n)
        try:
            return ('ok', sym_fn(*args))
        except (core.Abort, core.BoundHit, core.HarnessError):
            raise
        except Exception as e:
            return ('exc', type(e).__name__)

    for p in eng.explore(h):
        if p.kind != 'ok':
            outs.append(('path-' + p.kind, str(p.value)))
            continue
        kind, val = p.value
        outs.append((kind, conc(val, p.model or {})))
    return outs


def conc(v, model):
    if isinstance(v, Sym):
        consts, _ = core.term_symbols(v.e)
        subs = [(c, model.get(n) if model.get(n) is not None else core._default_value(c))
                for n, c in consts.items()]
        t = z3.simplify(z3.substitute(v.e, *subs)) if subs else z3.simplify(v.e)
        if z3.is_int_value(t):
            return t.as_long()
        if z3.is_true(t):
            return True
        if z3.is_false(t):
            return False
        if z3.is_string_value(t):
            return core._zstr_to_py(t)
        s = z3.Solver()
        x = z3.Const('__x', t.sort())
        s.add(x == t)
        assert str(s.check()) == 'sat'
        return conc(type(v)(s.model().eval(x, model_completion=True)), {})
    if isinstance(v, (list, tuple)):
        return type(v)(conc(x, model) for x in v)
    if isinstance(v, models.SymPath):
        return ('path', conc(v.to_str(), model))
    return v


def native(fn, values):
    try:
        r = fn(*values)
        if isinstance(r, pathlib.PurePath):
            r = ('path', str(r))
        return ('ok', r)
    except Exception as e:
        return ('exc', type(e).__name__)


STRINGS = ['', 'a', 'ab', 'abc', 'a/b', '/a/b/', 'x.py', '..py', '.', '..', 'a.b.c', 'İx', 'Aa_', '\n', 'a\r\n',
           'foo-stubs', '-stubs', '__init__', '\u2003a\u3000', 'aXbXc', 'XX', ' a ', 'a  ', '//a', 'ß', '\U0001F600x']
INTS = [-3, -1, 0, 1, 2, 3, 5]

CASES = []


def case(name, sym_fn, nat_fn, domains, limit=160):
    CASES.append((name, sym_fn, nat_fn, domains, limit))


case('len', lambda s: models.slen(s), len, [STRINGS])
case('concat', lambda a, b: a + b, lambda a, b: a + b, [STRINGS, STRINGS])
case('eq', lambda a, b: a == b, lambda a, b: a == b, [STRINGS, STRINGS])
case('lt', lambda a, b: a < b, lambda a, b: a < b, [STRINGS, STRINGS])
case('startswith', models.str_startswith, str.startswith, [STRINGS, STRINGS])
case('endswith', models.str_endswith, str.endswith, [STRINGS, STRINGS])
case('endswith-tuple', lambda s: models.str_endswith(s, ('/', 'c')), lambda s: s.endswith(('/', 'c')), [STRINGS])
case('contains', lambda a, b: models.str_contains(a, b), lambda a, b: b in a, [STRINGS, STRINGS])
case('find', models.str_find, str.find, [STRINGS, STRINGS])
case('find-from', lambda s, t, i: models.str_find(s, t, i), lambda s, t, i: s.find(t, i), [STRINGS, ['', 'a', 'b', '/', 'X'], INTS], 300)
case('index', lambda s, i: models.str_getitem(s, i), lambda s, i: s[i], [STRINGS, INTS])
case('slice-from', lambda s, i: models.str_getitem(s, slice(i, None)), lambda s, i: s[i:], [STRINGS, INTS])
case('slice-to', lambda s, i: models.str_getitem(s, slice(None, i)), lambda s, i: s[:i], [STRINGS, INTS])
case('slice', lambda s, i, j: models.str_getitem(s, slice(i, j)), lambda s, i, j: s[i:j], [STRINGS, INTS, INTS], 400)
case('split', lambda s: models.str_split(s, '/'), lambda s: s.split('/'), [STRINGS])
case('splitX', lambda s: models.str_split(s, 'X'), lambda s: s.split('X'), [STRINGS])
case('rstrip', lambda s: models.str_rstrip(s, '/'), lambda s: s.rstrip('/'), [STRINGS])
case('lstrip', lambda s: models.str_lstrip(s, '/'), lambda s: s.lstrip('/'), [STRINGS])
case('strip-ws', lambda s: models.str_strip(s), lambda s: s.strip(), [STRINGS])
case('replace', lambda s: models.str_replace(s, 'X', '--'), lambda s: s.replace('X', '--'), [STRINGS])
case('removesuffix', lambda s: models.str_removesuffix(s, '-stubs'), lambda s: s.removesuffix('-stubs'), [STRINGS])
case('removeprefix', lambda s: models.str_removeprefix(s, 'a'), lambda s: s.removeprefix('a'), [STRINGS])
case('join', lambda a, b: models.str_join('/', [a, b]), lambda a, b: '/'.join([a, b]), [STRINGS, STRINGS])
case('floordiv', lambda a, b: core.floordiv(a, b), lambda a, b: a // b, [INTS, INTS])
case('mod', lambda a, b: core.pymod(a, b), lambda a, b: a % b, [INTS, INTS])
case('int-lt', lambda a, b: a < b, lambda a, b: a < b, [INTS, INTS])
case('abs', lambda a: abs(a), abs, [INTS])

COMPONENTS = ['a', 'mod.py', '..py', 'x.tar.gz', '.hidden', 'a.', '__init__.pyi', 'foo-stubs', 'n.cpython-312-x86_64-linux-gnu.so']


def _p(parts):
    return models.SymPath(list(parts))


def _np(*parts):
    return pathlib.PurePosixPath('/' + '/'.join(parts))


case('path-str', lambda a, b: _p([a, b]).to_str(), lambda a, b: str(_np(a, b)), [COMPONENTS, COMPONENTS])
case('path-name', lambda a, b: _p([a, b]).name, lambda a, b: _np(a, b).name, [COMPONENTS, COMPONENTS])
case('path-suffix', lambda a: _p(['d', a]).suffix, lambda a: _np('d', a).suffix, [COMPONENTS])
case('path-stem', lambda a: _p(['d', a]).stem, lambda a: _np('d', a).stem, [COMPONENTS])
case('path-parent', lambda a, b: _p([a, b]).parent, lambda a, b: _np(a, b).parent, [COMPONENTS, COMPONENTS])
case('path-with_name', lambda a, b: _p(['d', a]).with_name(b), lambda a, b: _np('d', a).with_name(b),
     [COMPONENTS, COMPONENTS + ['.', '']])
case('path-relative_to', lambda a, b: _p(['r', a, 'x']).relative_to(_p(['r', b])),
     lambda a, b: _np('r', a, 'x').relative_to(_np('r', b)), [COMPONENTS[:4], COMPONENTS[:4]])
case('path-eq-str', lambda a: _p([a]) == ('/' + a), lambda a: _np(a) == '/' + a, [COMPONENTS[:3]])


def lower_case():
    """exact lower()/upper() over a declared alphabet"""
    alphabet = 'aAb_İ'
    bad = 0
    n = 0
    for L in (0, 1, 2, 3):
        for tup in itertools.product(alphabet, repeat=L):
            s = ''.join(tup)
            eng = Engine()

            def h():
                v = eng.new_str('s', 3)
                eng.str_meta['s'] = (3, alphabet)
                eng.add(v.e == core.zstrval(s))
                return (models.str_lower(v), models.str_upper(v))
            for p in eng.explore(h):
                lo, up = conc(p.value[0], p.model or {}), conc(p.value[1], p.model or {})
                n += 1
                if lo != s.lower() or up != s.upper():
                    bad += 1
                    print('  lower/upper mismatch on %r: %r %r' % (s, lo, up))
    return n, bad


def main():
    t0 = time.time()
    rnd = random.Random(int(os.environ.get('VERIF_SEED', '0') or 0))
    total = bad = 0
    for name, sym_fn, nat_fn, domains, limit in CASES:
        combos = list(itertools.product(*domains))
        if len(combos) > limit:
            combos = rnd.sample(combos, limit)
        for values in combos:
            want = native(nat_fn, values)
            got = evaluate(sym_fn, list(values))
            total += 1
            if len(got) != 1 or got[0] != want:
                bad += 1
                if bad < 30:
                    print('MODEL MISMATCH %s%r: model=%r cpython=%r' % (name, values, got, want))
    n, b = lower_case()
    total += n
    bad += b
    print('pysym selftest: %d model evaluations against CPython, %d mismatches, %.1fs'
          % (total, bad, time.time() - t0))
    return 1 if bad else 0


if __name__ == '__main__':
    sys.exit(main())
