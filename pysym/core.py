"""pysym core: symbolic values, the path-exploration engine and the solver front end.

Symbolic values wrap z3 terms.  They carry operator overloading so that they also survive inside
*native* library code (``sorted``, ``max``, tuple comparison ...): every truth test of a symbolic
boolean goes through ``Engine.branch`` and forks the exploration.  Hashing a symbolic value is an
error (dict/set with symbolic keys must go through ``SymDict``/``SymSet``).
"""
import itertools
import time

import z3


class Abort(BaseException):
    """The current path is abandoned (infeasible assumption or exhausted budget)."""


class BoundHit(BaseException):
    """A stated bound (loop unrolling, split pieces, recursion ...) was exceeded on this path."""

    def __init__(self, what):
        BaseException.__init__(self, what)
        self.what = what


class HarnessError(Exception):
    """The machinery itself is wrong or inconclusive (never a verdict)."""


ENGINE = None


def engine():
    if ENGINE is None:
        raise HarnessError('no active engine')
    return ENGINE


# --------------------------------------------------------------------------------------- values

class Sym:
    __slots__ = ('e',)
    _pysym = True

    def __init__(self, e):
        self.e = e

    def __repr__(self):
        return '<%s %s>' % (type(self).__name__, self.e)

    def __hash__(self):
        raise HarnessError('symbolic value hashed (use SymDict/SymSet): %r' % (self,))


def is_symv(v):
    return isinstance(v, Sym)


def z(v):
    """lift a Python or symbolic value to a z3 term"""
    if isinstance(v, Sym):
        return v.e
    if isinstance(v, bool):
        return z3.BoolVal(v)
    if isinstance(v, int):
        return z3.IntVal(int(v))
    if isinstance(v, str):
        return z3.StringVal(v)
    if isinstance(v, z3.ExprRef):
        return v
    raise HarnessError('cannot lift %r to a solver term' % (v,))


def zbool(v):
    """truth value of v as a z3 Bool term (no forking)"""
    if isinstance(v, SBool):
        return v.e
    if isinstance(v, SInt):
        return v.e != 0
    if isinstance(v, SStr):
        return z3.Length(v.e) > 0
    if isinstance(v, z3.BoolRef):
        return v
    return z3.BoolVal(bool(v))


def _simp(e):
    return z3.simplify(e)


def mk_bool(e):
    e = _simp(e)
    if z3.is_true(e):
        return True
    if z3.is_false(e):
        return False
    return SBool(e)


def mk_int(e):
    e = _simp(e)
    if z3.is_int_value(e):
        return e.as_long()
    return SInt(e)


def mk_str(e):
    e = _simp(e)
    if z3.is_string_value(e):
        return e.as_string() if False else _zstr_to_py(e)
    return SStr(e)


def _zstr_to_py(e):
    # z3 escapes non-printable / non-ascii characters as \u{..}
    s = e.as_string()
    if '\\u{' not in s:
        return s
    out = []
    i = 0
    while i < len(s):
        if s.startswith('\\u{', i):
            j = s.index('}', i)
            out.append(chr(int(s[i + 3:j], 16)))
            i = j + 1
        else:
            out.append(s[i])
            i += 1
    return ''.join(out)


class SBool(Sym):
    __slots__ = ()

    def __bool__(self):
        return engine().branch(self.e)

    def __eq__(self, o):
        if isinstance(o, (SBool, bool)):
            return mk_bool(self.e == z(o))
        if isinstance(o, (SInt, int)):
            return mk_bool(z3.If(self.e, 1, 0) == z(o))
        return False

    def __ne__(self, o):
        return sym_not(self.__eq__(o))

    __hash__ = Sym.__hash__

    def __and__(self, o):
        return mk_bool(z3.And(self.e, zbool(o)))

    __rand__ = __and__

    def __or__(self, o):
        return mk_bool(z3.Or(self.e, zbool(o)))

    __ror__ = __or__

    def __invert__(self):
        raise HarnessError('~ on symbolic bool')

    def __int__(self):
        return SInt(z3.If(self.e, z3.IntVal(1), z3.IntVal(0)))

    def __index__(self):
        raise HarnessError('symbolic bool used as index')

    def __add__(self, o):
        return as_sint(self) + o

    __radd__ = __add__


def as_sint(v):
    if isinstance(v, SBool):
        return SInt(z3.If(v.e, z3.IntVal(1), z3.IntVal(0)))
    if isinstance(v, bool):
        return int(v)
    return v


def sym_not(v):
    if isinstance(v, SBool):
        return mk_bool(z3.Not(v.e))
    if isinstance(v, Sym):
        return mk_bool(z3.Not(zbool(v)))
    return not v


class SInt(Sym):
    __slots__ = ()

    def __bool__(self):
        return engine().branch(self.e != 0)

    def __index__(self):
        raise HarnessError('symbolic int realised at a native boundary (__index__): %r' % (self,))

    def __int__(self):
        return self

    def _ok(self, o):
        return isinstance(o, (SInt, int, SBool)) and not isinstance(o, str)

    def __eq__(self, o):
        if not self._ok(o):
            return False
        return mk_bool(self.e == z(as_sint(o)))

    def __ne__(self, o):
        return sym_not(self.__eq__(o))

    __hash__ = Sym.__hash__

    def _cmp(self, o, f):
        if not self._ok(o):
            raise TypeError("comparison not supported between instances of 'int' and %r"
                            % type(o).__name__)
        return mk_bool(f(self.e, z(as_sint(o))))

    def __lt__(self, o): return self._cmp(o, lambda a, b: a < b)
    def __le__(self, o): return self._cmp(o, lambda a, b: a <= b)
    def __gt__(self, o): return self._cmp(o, lambda a, b: a > b)
    def __ge__(self, o): return self._cmp(o, lambda a, b: a >= b)

    def _ar(self, o, f, what):
        if not self._ok(o):
            return NotImplemented
        return mk_int(f(self.e, z(as_sint(o))))

    def __add__(self, o): return self._ar(o, lambda a, b: a + b, '+')
    def __radd__(self, o): return self._ar(o, lambda a, b: b + a, '+')
    def __sub__(self, o): return self._ar(o, lambda a, b: a - b, '-')
    def __rsub__(self, o): return self._ar(o, lambda a, b: b - a, '-')

    def __mul__(self, o):
        if isinstance(o, (str, list, tuple)):
            raise HarnessError('sequence repetition by a symbolic int')
        return self._ar(o, lambda a, b: a * b, '*')

    __rmul__ = __mul__

    def __neg__(self): return mk_int(-self.e)
    def __pos__(self): return self

    def __abs__(self): return mk_int(z3.If(self.e >= 0, self.e, -self.e))

    def __floordiv__(self, o):
        return floordiv(self, o)

    def __rfloordiv__(self, o):
        return floordiv(o, self)

    def __mod__(self, o):
        return pymod(self, o)

    def __rmod__(self, o):
        return pymod(o, self)

    def __truediv__(self, o):
        raise HarnessError('true division on a symbolic int (floats are not modelled)')


def floordiv(a, b):
    """Python floor division on (symbolic) ints; ZeroDivisionError forks"""
    if b_is_zero(b):
        raise ZeroDivisionError('integer division or modulo by zero')
    za, zb = z(as_sint(a)), z(as_sint(b))
    # z3 div is Euclidean (remainder >= 0); Python floors.
    q = za / zb
    r = za % zb
    # for zb > 0 Euclidean == floor; for zb < 0: floor = q if r == 0 else q - 1 ... (Euclid: a = q*b + r, r>=0)
    return mk_int(z3.If(zb > 0, q, z3.If(r == 0, q, q - 1)))


def pymod(a, b):
    if b_is_zero(b):
        raise ZeroDivisionError('integer division or modulo by zero')
    za, zb = z(as_sint(a)), z(as_sint(b))
    r = za % zb          # 0 <= r < |b|
    return mk_int(z3.If(zb > 0, r, z3.If(r == 0, r, r + zb)))


def b_is_zero(b):
    if isinstance(b, Sym):
        return bool(b == 0)
    return b == 0


class SStr(Sym):
    __slots__ = ()

    def __bool__(self):
        return engine().branch(z3.Length(self.e) > 0)

    def __eq__(self, o):
        if isinstance(o, (SStr, str)):
            return mk_bool(self.e == z(o))
        return False

    def __ne__(self, o):
        return sym_not(self.__eq__(o))

    __hash__ = Sym.__hash__

    def _cmp(self, o, f):
        if not isinstance(o, (SStr, str)):
            raise TypeError("comparison not supported between instances of 'str' and %r"
                            % type(o).__name__)
        return mk_bool(f(self.e, z(o)))

    def __lt__(self, o): return self._cmp(o, lambda a, b: a < b)
    def __le__(self, o): return self._cmp(o, lambda a, b: a <= b)
    def __gt__(self, o): return self._cmp(o, lambda a, b: a > b)
    def __ge__(self, o): return self._cmp(o, lambda a, b: a >= b)

    def __len__(self):
        raise HarnessError('len() of a symbolic string in native code')

    def __add__(self, o):
        if not isinstance(o, (SStr, str)):
            raise TypeError('can only concatenate str (not "%s") to str' % type(o).__name__)
        return mk_str(z3.Concat(self.e, z(o)))

    def __radd__(self, o):
        if not isinstance(o, (SStr, str)):
            return NotImplemented
        return mk_str(z3.Concat(z(o), self.e))

    def __mod__(self, o):
        return engine().opaque_str('fmt')

    def __contains__(self, o):
        if not isinstance(o, (SStr, str)):
            raise TypeError("'in <string>' requires string as left operand")
        return bool(mk_bool(z3.Contains(self.e, z(o))))

    def __iter__(self):
        raise HarnessError('iteration over a symbolic string (use models.chars)')

    def __getitem__(self, i):
        from . import models
        return models.str_getitem(self, i)

    def __getattr__(self, name):
        from . import models
        m = models.STR_METHODS.get(name)
        if m is None:
            raise HarnessError('str.%s is not modelled for symbolic strings' % name)
        return lambda *a, **k: m(self, *a, **k)


class Opaque:
    """A value that supports identity only (results of formatting, logging, matching ...)."""
    _pysym = True

    def __init__(self, tag):
        self.tag = tag

    def __repr__(self):
        return '<Opaque %s>' % self.tag


def deep_sym(v, depth=4, _seen=None):
    """does the value (shallowly nested) contain a symbolic value?"""
    if isinstance(v, Sym):
        return True
    if v is None or isinstance(v, (int, str, bool, float, bytes)):
        return False
    if getattr(v, '_pysym_holder', False):
        return True
    if depth <= 0:
        return False
    if isinstance(v, (tuple, list, set, frozenset)):
        return any(deep_sym(x, depth - 1) for x in v)
    if isinstance(v, dict):
        return any(deep_sym(x, depth - 1) for x in v.values()) or \
            any(deep_sym(x, depth - 1) for x in v.keys())
    return False


# --------------------------------------------------------------------------------------- engine

class PathResult:
    __slots__ = ('pc', 'kind', 'value', 'decisions', 'model')

    def __init__(self, pc, kind, value, decisions, model=None):
        self.pc, self.kind, self.value, self.decisions = pc, kind, value, decisions
        self.model = model


class Engine:
    """Depth-first exploration of the decision tree of a harness by deterministic re-execution."""

    def __init__(self, branch_timeout_ms=250, max_paths=20000, seed=0, max_decisions=400):
        self.solver = z3.Solver()
        self.solver.set('timeout', branch_timeout_ms)
        self.branch_timeout_ms = branch_timeout_ms
        self.solver.set('random_seed', seed)
        self.queries = 0
        self.query_time = 0.0
        self.unknown_branches = 0
        self.max_paths = max_paths
        self.max_decisions = max_decisions
        self.paths = 0
        self.trace = []
        self.pc = []
        self.model = None
        self._last_model = None
        self.pos = 0
        self.vars = {}          # name -> z3 const, per path (deterministic names)
        self._counter = {}
        self.on_path_end = []   # callbacks (generator threads cleanup)
        self.cvc5_branch = True
        self.cvc5_branch_timeout = 3.0
        self.cvc5_branch_queries = 0

    # ---- variables
    def _name(self, base):
        n = self._counter.get(base, 0)
        self._counter[base] = n + 1
        return base if n == 0 else '%s#%d' % (base, n)

    def new_int(self, name='i'):
        n = self._name(name)
        v = z3.Int(n)
        self.vars[n] = v
        return SInt(v)

    def new_bool(self, name='b'):
        n = self._name(name)
        v = z3.Bool(n)
        self.vars[n] = v
        return SBool(v)

    def new_str(self, name='s', maxlen=None):
        n = self._name(name)
        v = z3.String(n)
        self.vars[n] = v
        if maxlen is not None:
            self.add(z3.Length(v) <= maxlen)
        return SStr(v)

    def opaque_str(self, tag='fmt'):
        # result of formatting: an arbitrary string nobody may depend on
        return self.new_str('_' + tag)

    # ---- path condition
    # `self.model` is a model of the current path condition whenever it is not None; it lets most
    # feasibility questions be answered by evaluation instead of a solver call.
    def _holds(self, cond):
        if self.model is None:
            return None
        try:
            v = self.model.eval(cond, model_completion=True)
        except z3.Z3Exception:
            return None
        if z3.is_true(v):
            return True
        if z3.is_false(v):
            return False
        return None

    def add(self, cond, check=True):
        cond = _simp(cond)
        if z3.is_true(cond):
            return
        self.pc.append(cond)
        self.solver.add(cond)
        if self.pos < len(self.trace):
            return                      # replaying a known-feasible prefix
        if self._holds(cond) is True:
            return
        if not check:
            self.model = None
            return
        r = self._check(None)
        if r == 'unsat':
            raise Abort('infeasible')
        # 'sat' refreshed self.model; 'unknown' left it None

    def _check(self, cond):
        """satisfiability of pc (+ cond); on sat the model is kept in self._last_model"""
        self.queries += 1
        t = time.time()
        self._last_model = None
        if cond is not None:
            self.solver.push()
            self.solver.add(cond)
        r = str(self.solver.check())
        if r == 'sat':
            self._last_model = self.solver.model()
            if cond is None:
                self.model = self._last_model
        elif cond is None:
            self.model = None
        if cond is not None:
            self.solver.pop()
        if r == 'unknown' and self.cvc5_branch:
            from . import solve
            q = self.pc + ([cond] if cond is not None else [])
            if solve._uses_strings(q):
                self.cvc5_branch_queries += 1
                r = solve._WORKER.check(q, self.cvc5_branch_timeout).status
        self.query_time += time.time() - t
        return r

    def branch(self, cond):
        cond = _simp(cond)
        if z3.is_true(cond):
            return True
        if z3.is_false(cond):
            return False
        if self.pos < len(self.trace):
            ent = self.trace[self.pos]
            choice = ent[0]
            self.pos += 1
            c = cond if choice else z3.Not(cond)
            self.pc.append(c)
            self.solver.add(c)
            if self.pos == len(self.trace):
                self.model = ent[2]     # model of the flipped side, found when it was proven sat
            return choice
        if len(self.trace) >= self.max_decisions:
            raise BoundHit('more than %d decisions on one path' % self.max_decisions)
        h = self._holds(cond)
        if h is None:
            t = self._check(cond)
            mt = self._last_model
            f = self._check(z3.Not(cond))
            mf = self._last_model
            if t == 'unknown' or f == 'unknown':
                self.unknown_branches += 1
            t, f = t != 'unsat', f != 'unsat'
            if not t and not f:
                raise Abort('infeasible path')
        elif h:
            t, mt = True, self.model
            r = self._check(z3.Not(cond))
            mf = self._last_model
            if r == 'unknown':
                self.unknown_branches += 1
            f = r != 'unsat'
        else:
            f, mf = True, self.model
            r = self._check(cond)
            mt = self._last_model
            if r == 'unknown':
                self.unknown_branches += 1
            t = r != 'unsat'
        if t:
            self.trace.append([True, f, mf])
            choice, self.model = True, mt
        else:
            self.trace.append([False, False, None])
            choice, self.model = False, mf
        self.pos += 1
        c = cond if choice else z3.Not(cond)
        self.pc.append(c)
        self.solver.add(c)
        return choice

    def assume(self, cond):
        """constrain the inputs (part of the claim); an unsatisfiable assumption aborts the path"""
        c = zbool(cond) if not isinstance(cond, z3.ExprRef) else cond
        c = _simp(c)
        if z3.is_false(c):
            raise Abort('assume false')
        self.add(c)

    def refute(self, conds, timeout_ms=3000):
        """is  pc AND conds  satisfiable?  -> ('sat', model) | ('unsat', None) | ('unknown', None)
        (incremental: the path condition is already asserted)"""
        conds = [_simp(c) for c in conds]
        if any(z3.is_false(c) for c in conds):
            return 'unsat', None
        if self.model is not None and all(self._holds(c) is True for c in conds):
            return 'sat', self.model
        self.queries += 1
        t = time.time()
        self.solver.push()
        self.solver.set('timeout', timeout_ms)
        try:
            self.solver.add(*conds)
            r = str(self.solver.check())
            m = self.solver.model() if r == 'sat' else None
        finally:
            self.solver.set('timeout', self.branch_timeout_ms)
            self.solver.pop()
        self.query_time += time.time() - t
        return r, m

    def choose(self, n, name='choice'):
        """nondeterministic concrete choice in range(n) (forking)"""
        v = self.new_int(name)
        self.add(z3.And(v.e >= 0, v.e < n))
        for k in range(n - 1):
            if self.branch(v.e == k):
                return k
        return n - 1

    # ---- exploration
    def explore(self, fn):
        """run fn() under every feasible decision sequence; yields PathResult"""
        global ENGINE
        self.trace = []
        while True:
            self.pos = 0
            self.pc = []
            self.model = None
            self.path_model = None
            self.vars = {}
            self._counter = {}
            self.solver.push()
            prev = ENGINE
            ENGINE = self
            res = None
            try:
                try:
                    if not self.trace:
                        self._check(None)       # model of the empty path condition
                    res = ('ok', fn())
                    if self.model is None:
                        self._check(None)
                    self.path_model = self.model
                except Abort:
                    res = None
                except BoundHit as b:
                    res = ('bound', b.what)
                except HarnessError:
                    raise
                except RecursionError as e:
                    res = ('bound', 'RecursionError in interpreter: %s' % e)
                except Exception as e:     # an exception escaping the harness itself
                    res = ('exc', e)
            finally:
                for cb in self.on_path_end:
                    cb()
                self.on_path_end = []
                ENGINE = prev
                self.solver.pop()
            if res is not None:
                self.paths += 1
                yield PathResult(list(self.pc), res[0], res[1], [t[0] for t in self.trace[:self.pos]],
                                 self.path_model)
                if self.paths >= self.max_paths:
                    yield PathResult([], 'bound', 'path budget %d exhausted' % self.max_paths, [])
                    return
            while self.trace and not self.trace[-1][1]:
                self.trace.pop()
            if not self.trace:
                return
            self.trace[-1] = [not self.trace[-1][0], False, self.trace[-1][2]]


_fresh = itertools.count()


def fresh_name(prefix='t'):
    return '%s!%d' % (prefix, next(_fresh))
