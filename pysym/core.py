"""pysym core: symbolic values, the path-exploration engine and the solver front end.

Symbolic values wrap z3 terms.  They carry operator overloading so that they also survive inside
*native* library code (``sorted``, ``max``, tuple comparison ...): every truth test of a symbolic
boolean goes through ``Engine.branch`` and forks the exploration.  Hashing a symbolic value is an
error (dict/set with symbolic keys must go through ``SymDict``/``SymSet``).
"""
import itertools
import time

import z3


class Abort(BaseException):
    """The current path is abandoned (infeasible assumption or exhausted budget)."""


class BoundHit(BaseException):
    """A stated bound (loop unrolling, split pieces, recursion ...) was exceeded on this path."""

    def __init__(self, what):
        BaseException.__init__(self, what)
        self.what = what


class HarnessError(BaseException):
    """The machinery itself is wrong or inconclusive (never a verdict)."""


ENGINE = None


def engine():
    if ENGINE is None:
        raise HarnessError('no active engine')
    return ENGINE


# --------------------------------------------------------------------------------------- values

class Sym:
    __slots__ = ('e',)
    _pysym = True

    def __init__(self, e):
        self.e = e

    def __repr__(self):
        return '<%s %s>' % (type(self).__name__, self.e)

    def __str__(self):
        raise HarnessError('str() of a symbolic value in native code: %r' % (self,))

    def __format__(self, spec):
        raise HarnessError('format() of a symbolic value in native code: %r' % (self,))

    def __hash__(self):
        raise HarnessError('symbolic value hashed (use SymDict/SymSet): %r' % (self,))


def is_symv(v):
    return isinstance(v, Sym)


def z(v):
    """lift a Python or symbolic value to a z3 term"""
    if isinstance(v, Sym):
        return v.e
    if isinstance(v, bool):
        return z3.BoolVal(v)
    if isinstance(v, int):
        return z3.IntVal(int(v))
    if isinstance(v, str):
        return zstrval(v)
    if isinstance(v, z3.ExprRef):
        return v
    raise HarnessError('cannot lift %r to a solver term' % (v,))


def zstrval(s):
    """z3 literal for a Python str (the API mis-escapes characters beyond the BMP)"""
    if all(ord(c) <= 0xFFFF for c in s):
        return z3.StringVal(s)
    parts = []
    cur = ''
    for c in s:
        if ord(c) <= 0xFFFF:
            cur += c
        else:
            if cur:
                parts.append(z3.StringVal(cur))
                cur = ''
            parts.append(z3.Unit(z3.CharVal(ord(c))))
    if cur:
        parts.append(z3.StringVal(cur))
    return z3.Concat(*parts) if len(parts) > 1 else parts[0]


def zbool(v):
    """truth value of v as a z3 Bool term (no forking)"""
    if isinstance(v, SBool):
        return v.e
    if isinstance(v, SInt):
        return v.e != 0
    if isinstance(v, SStr):
        return z3.Length(v.e) > 0
    if isinstance(v, z3.BoolRef):
        return v
    return z3.BoolVal(bool(v))


def _simp(e):
    return z3.simplify(e)


def mk_bool(e):
    e = _simp(e)
    if z3.is_true(e):
        return True
    if z3.is_false(e):
        return False
    return SBool(e)


def mk_int(e):
    e = _simp(e)
    if z3.is_int_value(e):
        return e.as_long()
    return SInt(e)


def mk_str(e):
    e = _simp(e)
    if z3.is_string_value(e):
        return e.as_string() if False else _zstr_to_py(e)
    return SStr(e)


def _zstr_to_py(e):
    # z3 escapes non-printable / non-ascii characters as \u{..}
    s = e.as_string()
    if '\\u{' not in s:
        return s
    out = []
    i = 0
    while i < len(s):
        if s.startswith('\\u{', i):
            j = s.index('}', i)
            out.append(chr(int(s[i + 3:j], 16)))
            i = j + 1
        else:
            out.append(s[i])
            i += 1
    return ''.join(out)


class SBool(Sym):
    __slots__ = ()

    def __bool__(self):
        return engine().branch(self.e)

    def __eq__(self, o):
        if isinstance(o, (SBool, bool)):
            return mk_bool(self.e == z(o))
        if isinstance(o, (SInt, int)):
            return mk_bool(z3.If(self.e, 1, 0) == z(o))
        return False

    def __ne__(self, o):
        return sym_not(self.__eq__(o))

    __hash__ = Sym.__hash__

    def __and__(self, o):
        return mk_bool(z3.And(self.e, zbool(o)))

    __rand__ = __and__

    def __or__(self, o):
        return mk_bool(z3.Or(self.e, zbool(o)))

    __ror__ = __or__

    def __invert__(self):
        raise HarnessError('~ on symbolic bool')

    def __int__(self):
        return SInt(z3.If(self.e, z3.IntVal(1), z3.IntVal(0)))

    def __index__(self):
        raise HarnessError('symbolic bool used as index')

    def __lt__(self, o): return as_sint(self) < as_sint(o)
    def __le__(self, o): return as_sint(self) <= as_sint(o)
    def __gt__(self, o): return as_sint(self) > as_sint(o)
    def __ge__(self, o): return as_sint(self) >= as_sint(o)

    def __add__(self, o):
        return as_sint(self) + o

    __radd__ = __add__


def as_sint(v):
    if isinstance(v, SBool):
        return SInt(z3.If(v.e, z3.IntVal(1), z3.IntVal(0)))
    if isinstance(v, bool):
        return int(v)
    return v


def sym_not(v):
    if isinstance(v, SBool):
        return mk_bool(z3.Not(v.e))
    if isinstance(v, Sym):
        return mk_bool(z3.Not(zbool(v)))
    return not v


class SInt(Sym):
    __slots__ = ()

    def __bool__(self):
        return engine().branch(self.e != 0)

    def __index__(self):
        raise HarnessError('symbolic int realised at a native boundary (__index__): %r' % (self,))

    def __int__(self):
        return self

    def _ok(self, o):
        return isinstance(o, (SInt, int, SBool)) and not isinstance(o, str)

    def __eq__(self, o):
        if not self._ok(o):
            return False
        return mk_bool(self.e == z(as_sint(o)))

    def __ne__(self, o):
        return sym_not(self.__eq__(o))

    __hash__ = Sym.__hash__

    def _cmp(self, o, f):
        if not self._ok(o):
            raise TypeError("comparison not supported between instances of 'int' and %r"
                            % type(o).__name__)
        return mk_bool(f(self.e, z(as_sint(o))))

    def __lt__(self, o): return self._cmp(o, lambda a, b: a < b)
    def __le__(self, o): return self._cmp(o, lambda a, b: a <= b)
    def __gt__(self, o): return self._cmp(o, lambda a, b: a > b)
    def __ge__(self, o): return self._cmp(o, lambda a, b: a >= b)

    def _ar(self, o, f, what):
        if not self._ok(o):
            return NotImplemented
        return mk_int(f(self.e, z(as_sint(o))))

    def __add__(self, o): return self._ar(o, lambda a, b: a + b, '+')
    def __radd__(self, o): return self._ar(o, lambda a, b: b + a, '+')
    def __sub__(self, o): return self._ar(o, lambda a, b: a - b, '-')
    def __rsub__(self, o): return self._ar(o, lambda a, b: b - a, '-')

    def __mul__(self, o):
        if isinstance(o, (str, list, tuple)):
            raise HarnessError('sequence repetition by a symbolic int')
        return self._ar(o, lambda a, b: a * b, '*')

    __rmul__ = __mul__

    def __neg__(self): return mk_int(-self.e)
    def __pos__(self): return self

    def __abs__(self): return mk_int(z3.If(self.e >= 0, self.e, -self.e))

    def __floordiv__(self, o):
        return floordiv(self, o)

    def __rfloordiv__(self, o):
        return floordiv(o, self)

    def __mod__(self, o):
        return pymod(self, o)

    def __rmod__(self, o):
        return pymod(o, self)

    def __truediv__(self, o):
        raise HarnessError('true division on a symbolic int (floats are not modelled)')


def floordiv(a, b):
    """Python floor division on (symbolic) ints; ZeroDivisionError forks"""
    if b_is_zero(b):
        raise ZeroDivisionError('integer division or modulo by zero')
    za, zb = z(as_sint(a)), z(as_sint(b))
    # z3 div is Euclidean (remainder >= 0); Python floors.
    q = za / zb
    r = za % zb
    # for zb > 0 Euclidean == floor; for zb < 0: floor = q if r == 0 else q - 1 ... (Euclid: a = q*b + r, r>=0)
    return mk_int(z3.If(zb > 0, q, z3.If(r == 0, q, q - 1)))


def pymod(a, b):
    if b_is_zero(b):
        raise ZeroDivisionError('integer division or modulo by zero')
    za, zb = z(as_sint(a)), z(as_sint(b))
    r = za % zb          # 0 <= r < |b|
    return mk_int(z3.If(zb > 0, r, z3.If(r == 0, r, r + zb)))


def b_is_zero(b):
    if isinstance(b, Sym):
        return bool(b == 0)
    return b == 0


class SStr(Sym):
    __slots__ = ()

    def __bool__(self):
        return engine().branch(z3.Length(self.e) > 0)

    def __eq__(self, o):
        if isinstance(o, (SStr, str)):
            return mk_bool(self.e == z(o))
        return False

    def __ne__(self, o):
        return sym_not(self.__eq__(o))

    __hash__ = Sym.__hash__

    def _cmp(self, o, f):
        if not isinstance(o, (SStr, str)):
            raise TypeError("comparison not supported between instances of 'str' and %r"
                            % type(o).__name__)
        return mk_bool(f(self.e, z(o)))

    def __lt__(self, o): return self._cmp(o, lambda a, b: a < b)
    def __le__(self, o): return self._cmp(o, lambda a, b: a <= b)
    def __gt__(self, o): return self._cmp(o, lambda a, b: a > b)
    def __ge__(self, o): return self._cmp(o, lambda a, b: a >= b)

    def __len__(self):
        raise HarnessError('len() of a symbolic string in native code')

    def __add__(self, o):
        if not isinstance(o, (SStr, str)):
            raise TypeError('can only concatenate str (not "%s") to str' % type(o).__name__)
        return mk_str(z3.Concat(self.e, z(o)))

    def __radd__(self, o):
        if not isinstance(o, (SStr, str)):
            return NotImplemented
        return mk_str(z3.Concat(z(o), self.e))

    def __mod__(self, o):
        return engine().opaque_str('fmt')

    def __contains__(self, o):
        if not isinstance(o, (SStr, str)):
            raise TypeError("'in <string>' requires string as left operand")
        return bool(mk_bool(z3.Contains(self.e, z(o))))

    def __iter__(self):
        raise HarnessError('iteration over a symbolic string (use models.chars)')

    def __getitem__(self, i):
        from . import models
        return models.str_getitem(self, i)

    def __getattr__(self, name):
        from . import models
        m = models.STR_METHODS.get(name)
        if m is None:
            if name.startswith('_'):
                raise AttributeError(name)
            raise HarnessError('str.%s is not modelled for symbolic strings' % name)
        return lambda *a, **k: m(self, *a, **k)


class Opaque:
    """A value that supports identity only (results of formatting, logging, matching ...)."""
    _pysym = True

    def __init__(self, tag):
        self.tag = tag

    def __repr__(self):
        return '<Opaque %s>' % self.tag


def deep_sym(v, depth=4, _seen=None):
    """does the value (shallowly nested) contain a symbolic value?"""
    if isinstance(v, Sym):
        return True
    if v is None or isinstance(v, (int, str, bool, float, bytes)):
        return False
    if getattr(v, '_pysym_holder', False):
        return True
    if depth <= 0:
        return False
    if isinstance(v, (tuple, list, set, frozenset)):
        return any(deep_sym(x, depth - 1) for x in v)
    if isinstance(v, dict):
        return any(deep_sym(x, depth - 1) for x in v.values()) or \
            any(deep_sym(x, depth - 1) for x in v.keys())
    return False


# --------------------------------------------------------------------------------------- engine

class PathResult:
    __slots__ = ('pc', 'kind', 'value', 'decisions', 'model', 'zmodel')

    def __init__(self, pc, kind, value, decisions, model=None, zmodel=None):
        self.pc, self.kind, self.value, self.decisions = pc, kind, value, decisions
        self.model = model      # dict name -> z3 value
        self.zmodel = zmodel    # z3 model object (needed when uninterpreted functions occur)


def term_symbols(e, _cache={}):
    """(consts, has_uf): the uninterpreted constants of a term (as z3 exprs keyed by name) and
    whether it applies an uninterpreted function"""
    key = e.get_id()
    r = _cache.get(key)
    if r is not None and r[2].eq(e):
        return r[0], r[1]
    consts, ufs = {}, set()
    seen = set()
    todo = [e]
    while todo:
        x = todo.pop()
        i = x.get_id()
        if i in seen:
            continue
        seen.add(i)
        if z3.is_app(x) and x.decl().kind() == z3.Z3_OP_UNINTERPRETED:
            if x.num_args() == 0:
                consts[x.decl().name()] = x
            else:
                ufs.add(x.decl().name())
        if z3.is_quantifier(x):
            todo.append(x.body())
        else:
            todo.extend(x.children())
    if len(_cache) > 200000:
        _cache.clear()
    _cache[key] = (consts, ufs, e)
    return consts, ufs


def _default_value(c):
    s = c.sort()
    if s == z3.IntSort():
        return z3.IntVal(0)
    if s == z3.BoolSort():
        return z3.BoolVal(False)
    if s == z3.StringSort():
        return z3.StringVal('')
    raise HarnessError('no default value for sort %s' % s)


class _DictModel:
    """model given as {name: python value} (from cvc5)"""

    def __init__(self, vals):
        self.vals = vals

    def eval(self, c, model_completion=True):
        v = self.vals.get(c.decl().name()) if z3.is_const(c) else None
        if v is None:
            if not z3.is_const(c):
                raise HarnessError('dictionary model can only evaluate constants')
            return _default_value(c)
        if c.sort() == z3.IntSort():
            return z3.IntVal(int(v))
        if c.sort() == z3.BoolSort():
            return z3.BoolVal(bool(v))
        return zstrval(v)


class Engine:
    """Depth-first exploration of the decision tree of a harness by deterministic re-execution.

    Feasibility questions are answered (1) by evaluating the condition under a known model of the
    path condition, else (2) by a solver query restricted to the conjuncts of the path condition
    that share variables with the condition (constraint independence)."""

    def __init__(self, branch_timeout_ms=400, max_paths=20000, seed=0, max_decisions=400):
        self.branch_timeout_ms = branch_timeout_ms
        self.seed = seed
        self.queries = 0
        self.query_time = 0.0
        self.unknown_branches = 0
        self.max_paths = max_paths
        self.max_decisions = max_decisions
        self.paths = 0
        self.trace = []
        self.pc = []
        self.pc_syms = []       # per conjunct: frozenset of symbol names ("f:" prefix for functions)
        self.mvals = None       # name -> z3 value: a model of the path condition, or None if unknown
        self.uf_model = None    # z3 model object when uninterpreted functions are involved
        self._last = None
        self.pos = 0
        self.vars = {}          # name -> z3 const, per path (deterministic names)
        self.char_free = {}     # string variable name -> characters it certainly does not contain
        self.str_meta = {}      # string variable name -> (maxlen, alphabet) when both are declared
        self._counter = {}
        self.on_path_end = []   # callbacks (generator threads cleanup)
        self.cvc5_first = True
        self.dissent_timeout_ms = 300
        self.disagreements = 0
        self.retries = 0
        self.cvc5_branch = False
        self.cvc5_branch_timeout = 3.0
        self.cvc5_branch_queries = 0
        self.eval_hits = 0

    # ---- variables
    def _name(self, base):
        n = self._counter.get(base, 0)
        self._counter[base] = n + 1
        return base if n == 0 else '%s#%d' % (base, n)

    def new_int(self, name='i'):
        n = self._name(name)
        v = z3.Int(n)
        self.vars[n] = v
        return SInt(v)

    def new_bool(self, name='b'):
        n = self._name(name)
        v = z3.Bool(n)
        self.vars[n] = v
        return SBool(v)

    def new_str(self, name='s', maxlen=None):
        n = self._name(name)
        v = z3.String(n)
        self.vars[n] = v
        if maxlen is not None:
            self.add(z3.Length(v) <= maxlen)
        return SStr(v)

    def opaque_str(self, tag='fmt'):
        # result of formatting: an arbitrary string nobody may depend on
        return self.new_str('_' + tag)

    # ---- symbols and slices
    @staticmethod
    def _syms(e):
        consts, ufs = term_symbols(e)
        return frozenset(consts) | frozenset('f:' + u for u in ufs)

    def slice_for(self, conds):
        """the conjuncts of the path condition connected (through shared symbols) to conds"""
        closure = set()
        for c in conds:
            closure |= self._syms(c)
        chosen = [False] * len(self.pc)
        changed = True
        while changed:
            changed = False
            for i, sy in enumerate(self.pc_syms):
                if not chosen[i] and (sy & closure):
                    chosen[i] = True
                    if not sy <= closure:
                        closure |= sy
                    changed = True
        return [self.pc[i] for i in range(len(self.pc)) if chosen[i]], closure

    # ---- models
    def _eval(self, cond):
        """truth of cond under the current model, or None when not determined"""
        if self.mvals is None:
            return None
        consts, ufs = term_symbols(cond)
        if ufs:
            return None
        subs = [(c, self.mvals.get(n) if self.mvals.get(n) is not None else _default_value(c))
                for n, c in consts.items()]
        try:
            v = z3.simplify(z3.substitute(cond, *subs)) if subs else z3.simplify(cond)
        except z3.Z3Exception:
            return None
        if z3.is_true(v):
            self.eval_hits += 1
            return True
        if z3.is_false(v):
            self.eval_hits += 1
            return False
        return None

    def _solve(self, assertions, timeout_ms):
        """-> (status, model) where model answers .eval(const, model_completion=True)"""
        from . import solve
        strings = solve._uses_strings(assertions)
        uf = any(term_symbols(a)[1] for a in assertions)
        if strings and not uf and self.cvc5_first:
            st, vals = solve.cvc5_inproc(assertions, max(timeout_ms, 1500))
            if st == 'sat':
                return st, _DictModel(vals)
            if st == 'unsat':
                # an unsat verdict cannot be replayed: ask the second solver for a quick dissent
                s2 = z3.Solver()
                s2.set('timeout', self.dissent_timeout_ms)
                s2.add(*assertions)
                if str(s2.check()) == 'sat':
                    self.disagreements += 1
                    return 'sat', s2.model()
                return st, None
        s = z3.Solver()
        s.set('timeout', timeout_ms)
        s.set('random_seed', self.seed)
        s.add(*assertions)
        r = str(s.check())
        return r, (s.model() if r == 'sat' else None)

    def _check(self, extra, timeout_ms=None):
        """satisfiability of pc + extra -> (status, model-update dict or None)"""
        self.queries += 1
        t = time.time()
        sl, closure = self.slice_for(extra) if extra else (list(self.pc), None)
        q = sl + list(extra)
        r, m = self._solve(q, timeout_ms or self.branch_timeout_ms)
        if r == 'unknown':
            # a loaded machine makes wall-clock solver budgets flaky: one generous retry
            self.retries += 1
            r, m = self._solve(q, 8 * (timeout_ms or self.branch_timeout_ms))
        upd = None
        if r == 'sat':
            upd = {}
            has_uf = False
            for a in q:
                consts, ufs = term_symbols(a)
                has_uf = has_uf or bool(ufs)
                for n, c in consts.items():
                    if n not in upd:
                        upd[n] = m.eval(c, model_completion=True)
            if has_uf:
                upd = None      # function interpretations cannot be kept in the dictionary model
        elif r == 'unknown' and self.cvc5_branch:
            from . import solve
            if solve._uses_strings(q):
                self.cvc5_branch_queries += 1
                c = solve._WORKER.check(q, self.cvc5_branch_timeout)
                r = c.status
                if r == 'sat':
                    upd = self._upd_from_py(q, c.model)
        self.query_time += time.time() - t
        return r, upd

    def _upd_from_py(self, q, pyvals):
        upd = {}
        for a in q:
            consts, ufs = term_symbols(a)
            if ufs:
                return None
            for n, c in consts.items():
                if n in upd:
                    continue
                v = pyvals.get(n)
                if v is None:
                    upd[n] = _default_value(c)
                elif c.sort() == z3.IntSort():
                    upd[n] = z3.IntVal(int(v))
                elif c.sort() == z3.BoolSort():
                    upd[n] = z3.BoolVal(bool(v))
                else:
                    upd[n] = zstrval(v)
        return upd

    def _apply(self, upd):
        if upd is None or self.mvals is None:
            self.mvals = None
        else:
            self.mvals.update(upd)

    # ---- path condition
    def _push(self, cond):
        self.pc.append(cond)
        self.pc_syms.append(self._syms(cond))

    def add(self, cond, check=True):
        cond = _simp(cond)
        if z3.is_true(cond):
            return
        if self.pos < len(self.trace):
            self._push(cond)
            return                      # replaying a known-feasible prefix
        if self._eval(cond) is True:
            self._push(cond)
            return
        r, upd = self._check([cond])
        self._push(cond)
        if r == 'unsat':
            raise Abort('infeasible')
        if r == 'sat':
            self._apply(upd)
        else:
            self.mvals = None

    def branch(self, cond):
        cond = _simp(cond)
        if z3.is_true(cond):
            return True
        if z3.is_false(cond):
            return False
        if self.pos < len(self.trace):
            ent = self.trace[self.pos]
            choice = ent[0]
            self.pos += 1
            self._push(cond if choice else z3.Not(cond))
            if self.pos == len(self.trace):
                self.mvals = ent[2]     # model of the flipped side, found when it was proven sat
                ent[2] = None
            return choice
        if len(self.trace) >= self.max_decisions:
            raise BoundHit('more than %d decisions on one path' % self.max_decisions)
        ncond = z3.Not(cond)
        h = self._eval(cond)
        base = self.mvals
        if h is None:
            t, ut = self._check([cond])
            f, uf = self._check([ncond])
            if t == 'unknown' or f == 'unknown':
                self.unknown_branches += 1
            t, f = t != 'unsat', f != 'unsat'
            if not t and not f:
                raise Abort('infeasible path')
            mt = self._merged(base, ut) if t else None
            mf = self._merged(base, uf) if f else None
        elif h:
            t, mt = True, base
            r, uf = self._check([ncond])
            if r == 'unknown':
                self.unknown_branches += 1
            f = r != 'unsat'
            mf = self._merged(base, uf) if r == 'sat' else None
        else:
            f, mf = True, base
            r, ut = self._check([cond])
            if r == 'unknown':
                self.unknown_branches += 1
            t = r != 'unsat'
            mt = self._merged(base, ut) if r == 'sat' else None
        if t:
            self.trace.append([True, f, mf])
            choice, self.mvals = True, mt
        else:
            self.trace.append([False, False, None])
            choice, self.mvals = False, mf
        self.pos += 1
        self._push(cond if choice else ncond)
        return choice

    @staticmethod
    def _merged(base, upd):
        if base is None or upd is None:
            return None
        m = dict(base)
        m.update(upd)
        return m

    def assume(self, cond):
        """constrain the inputs (part of the claim); an unsatisfiable assumption aborts the path"""
        c = zbool(cond) if not isinstance(cond, z3.ExprRef) else cond
        c = _simp(c)
        if z3.is_false(c):
            raise Abort('assume false')
        self.add(c)

    def refute(self, conds, timeout_ms=3000):
        """is  pc AND conds  satisfiable?  -> (status, model dict | None, sliced assertions)"""
        conds = [_simp(c) for c in conds]
        if any(z3.is_false(c) for c in conds):
            return 'unsat', None, []
        if self.mvals is not None and all(self._eval(c) is True for c in conds):
            return 'sat', dict(self.mvals), list(self.pc) + conds
        self.queries += 1
        t = time.time()
        sl, closure = self.slice_for(conds)
        q = sl + conds
        r, m = self._solve(q, timeout_ms)
        if r == 'unknown':
            self.retries += 1
            r, m = self._solve(q, 4 * timeout_ms)
        model = None
        if r == 'sat':
            upd = {}
            uf = False
            for a in q:
                consts, ufs = term_symbols(a)
                uf = uf or bool(ufs)
                for n, c in consts.items():
                    if n not in upd:
                        upd[n] = m.eval(c, model_completion=True)
            model = self._merged(self.full_model(), upd)
            if uf:
                model = None
            self._last_zmodel = m
        self.query_time += time.time() - t
        return r, model, q

    def full_model(self):
        """a model of the whole path condition as a dict (solving if necessary); None if unknown"""
        if self.mvals is None:
            self.queries += 1
            r, m = self._solve(self.pc, max(self.branch_timeout_ms, 2000))
            if r != 'sat':
                return None
            vals = {}
            for a in self.pc:
                consts, ufs = term_symbols(a)
                for n, c in consts.items():
                    if n not in vals:
                        vals[n] = m.eval(c, model_completion=True)
            if not any(term_symbols(a)[1] for a in self.pc):
                self.mvals = vals
            elif not isinstance(m, _DictModel):
                self._path_zmodel = m
            return vals
        return self.mvals

    def choose(self, n, name='choice'):
        """nondeterministic concrete choice in range(n) (forking)"""
        v = self.new_int(name)
        self.add(z3.And(v.e >= 0, v.e < n))
        for k in range(n - 1):
            if self.branch(v.e == k):
                return k
        return n - 1

    # ---- exploration
    def explore(self, fn):
        """run fn() under every feasible decision sequence; yields PathResult"""
        global ENGINE
        self.trace = []
        while True:
            self.pos = 0
            self.pc = []
            self.pc_syms = []
            self.mvals = {} if not self.trace else None
            self.path_model = None
            self._path_zmodel = None
            self.vars = {}
            self.char_free = {}
            self.str_meta = {}
            self._counter = {}
            prev = ENGINE
            ENGINE = self
            res = None
            try:
                try:
                    res = ('ok', fn())
                    self.path_model = self.full_model()
                except Abort:
                    res = None
                except BoundHit as b:
                    res = ('bound', b.what)
                except HarnessError:
                    raise
                except RecursionError as e:
                    res = ('bound', 'RecursionError in interpreter: %s' % e)
                except Exception as e:     # an exception escaping the harness itself
                    res = ('exc', e)
            finally:
                for cb in self.on_path_end:
                    cb()
                self.on_path_end = []
                ENGINE = prev
            if res is not None:
                self.paths += 1
                yield PathResult(list(self.pc), res[0], res[1], [t[0] for t in self.trace[:self.pos]],
                                 self.path_model, self._path_zmodel)
                if self.paths >= self.max_paths:
                    yield PathResult([], 'bound', 'path budget %d exhausted' % self.max_paths, [])
                    return
            while self.trace and not self.trace[-1][1]:
                self.trace.pop()
            if not self.trace:
                return
            self.trace[-1] = [not self.trace[-1][0], False, self.trace[-1][2]]


_fresh = itertools.count()


def fresh_name(prefix='t'):
    return '%s!%d' % (prefix, next(_fresh))
