"""pysym interpreter: executes the AST of real Python functions over symbolic values.

Functions are read from the files the running modules were loaded from (for jedi: /repo), parsed
with ``ast`` and interpreted.  A call whose arguments contain no symbolic value is executed natively
(mixed execution).  Generators are lazy (one helper thread per live generator, strictly alternating
with its consumer).
"""
import ast
import builtins
import contextlib
import functools
import hashlib
import inspect
import operator
import sys
import textwrap
import threading
import types

import z3

from . import core, models
from .core import (Sym, SInt, SBool, SStr, Abort, BoundHit, HarnessError, z, zbool, mk_bool,
                   mk_int, mk_str, sym_not, engine, as_sint)
from .models import SymDict, SymSet, sym_eq, sym_lt

sys.setrecursionlimit(max(sys.getrecursionlimit(), 30000))


class _Return(BaseException):
    def __init__(self, v):
        self.v = v


class _Break(BaseException):
    pass


class _Continue(BaseException):
    pass


_CONTROL = (_Return, _Break, _Continue, Abort, BoundHit, HarnessError)


class Env:
    __slots__ = ('vars', 'parent', 'globals', 'nonlocals', 'globs', 'locals')

    def __init__(self, parent, globs):
        self.vars = {}
        self.parent = parent
        self.globs = globs          # module dict
        self.nonlocals = None
        self.globals = None
        self.locals = None          # names that are local to this function scope (assigned somewhere in its body)

    def lookup(self, name):
        e = self
        while e is not None:
            if name in e.vars:
                return e.vars[name]
            if e.locals is not None and name in e.locals:
                # Python decides at compile time that the name is local: no fall-through to outer scopes
                raise UnboundLocalError("cannot access local variable '%s' where it is not associated with a value" % name)
            e = e.parent
        if name in self.globs:
            return self.globs[name]
        try:
            return getattr(builtins, name)
        except AttributeError:
            raise NameError("name '%s' is not defined" % name)

    def store(self, name, v):
        if self.globals and name in self.globals:
            self.globs[name] = v
            return
        if self.nonlocals and name in self.nonlocals:
            e = self.parent
            while e is not None:
                if name in e.vars:
                    e.vars[name] = v
                    return
                e = e.parent
            raise HarnessError('nonlocal %s not found' % name)
        self.vars[name] = v

    def delete(self, name):
        del self.vars[name]


class CellEnv(Env):
    """closure cells of a real function, presented as an environment"""
    __slots__ = ('cells',)

    def __init__(self, f):
        Env.__init__(self, None, f.__globals__)
        self.cells = {}
        if f.__closure__:
            for n, c in zip(f.__code__.co_freevars, f.__closure__):
                self.cells[n] = c
        self.vars = _CellDict(self.cells)


class _CellDict(dict):
    def __init__(self, cells):
        dict.__init__(self)
        self._cells = cells

    def __contains__(self, k):
        if k in self._cells:
            try:
                self._cells[k].cell_contents
                return True
            except ValueError:
                return False
        return False

    def __getitem__(self, k):
        return self._cells[k].cell_contents

    def __setitem__(self, k, v):
        self._cells[k].cell_contents = v


class IFunc:
    """a function defined while interpreting (closure over an Env)"""
    _pysym_ifunc = True

    def __init__(self, interp, node, env, name, is_lambda=False):
        self._interp, self._node, self._env = interp, node, env
        a = node.args
        # Python evaluates default values once, when the function is defined
        self._defaults = (tuple(interp.ev(d, env) for d in a.defaults),
                          {p.arg: interp.ev(d, env) for p, d in zip(a.kwonlyargs, a.kw_defaults) if d is not None})
        self.__name__ = name
        self.__qualname__ = name
        self._is_lambda = is_lambda
        self.__doc__ = None
        self.__module__ = env.globs.get('__name__', '?')

    def __call__(self, *a, **k):
        return self._interp.call(self, list(a), k)

    def __get__(self, obj, objtype=None):
        if obj is None:
            return self
        return types.MethodType(self, obj)

    def __repr__(self):
        return '<IFunc %s>' % self.__name__


_LOCALS_CACHE = {}


def _local_names(funcdef):
    """names bound by plain assignment-like statements directly in the function (not in nested scopes); used for
    UnboundLocalError only, so a conservative subset is enough: Name targets with Store context, for/with/except
    targets, augmented assignments"""
    key = id(funcdef)
    if key in _LOCALS_CACHE:
        return _LOCALS_CACHE[key]
    out = set()

    def visit(n):
        for ch in ast.iter_child_nodes(n):
            if isinstance(ch, (ast.FunctionDef, ast.AsyncFunctionDef, ast.Lambda, ast.ClassDef,
                               ast.ListComp, ast.SetComp, ast.DictComp, ast.GeneratorExp)):
                if isinstance(ch, (ast.FunctionDef, ast.AsyncFunctionDef, ast.ClassDef)):
                    out.add(ch.name)
                continue
            if isinstance(ch, ast.Name) and isinstance(ch.ctx, ast.Store):
                out.add(ch.id)
            elif isinstance(ch, ast.ExceptHandler) and ch.name:
                out.add(ch.name)
            elif isinstance(ch, (ast.Import, ast.ImportFrom)):
                for a in ch.names:
                    out.add((a.asname or a.name).split('.')[0])
            visit(ch)
    for st in funcdef.body:
        visit(ast.Module(body=[st], type_ignores=[]))
    _LOCALS_CACHE[key] = frozenset(out)
    return _LOCALS_CACHE[key]


def _has_yield(node):
    r = getattr(node, '_pysym_has_yield', None)
    if r is None:
        r = node._pysym_has_yield = _has_yield_uncached(node)
    return r


def _has_yield_uncached(node):
    """does this function body contain yield (not counting nested functions)?"""
    todo = list(node.body) if isinstance(node.body, list) else [node.body]
    while todo:
        n = todo.pop()
        if isinstance(n, (ast.Yield, ast.YieldFrom)):
            return True
        if isinstance(n, (ast.FunctionDef, ast.AsyncFunctionDef, ast.Lambda, ast.ClassDef)):
            continue
        todo.extend(ast.iter_child_nodes(n))
    return False


class ThreadGen:
    """lazy generator: the body runs in its own thread, alternating strictly with the consumer"""
    _pysym_gen = True

    def __init__(self, interp, body):
        self._interp = interp
        self._body = body
        self._to_gen = threading.Semaphore(0)
        self._to_con = threading.Semaphore(0)
        self._thread = None
        self._done = False
        self._msg = None        # ('yield', v) | ('return', v) | ('raise', exc)
        self._inbox = None      # ('next', v) | ('throw', exc)
        self._running = False

    def __iter__(self):
        return self

    def _start(self):
        def run():
            self._to_gen.acquire()
            try:
                kind, val = self._inbox
                if kind == 'throw':
                    raise val
                r = self._body(self)
                self._msg = ('return', r)
            except BaseException as e:      # includes Abort/BoundHit: forwarded to the consumer
                self._msg = ('raise', e)
            self._done = True
            self._to_con.release()
        threading.stack_size(256 * 1024 * 1024)
        self._thread = threading.Thread(target=run, daemon=True)
        self._thread.start()
        engine().on_path_end.append(self._kill)

    def _resume(self, kind, val):
        if self._done:
            if kind == 'throw':
                raise val
            raise StopIteration
        if self._running:
            raise ValueError('generator already executing')
        self._inbox = (kind, val)
        if self._thread is None:
            if kind == 'throw':
                self._done = True
                raise val
            self._start()
        self._running = True
        self._to_gen.release()
        self._to_con.acquire()
        self._running = False
        kind, val = self._msg
        if kind == 'yield':
            return val
        if kind == 'return':
            e = StopIteration(val)
            e.value = val
            raise e
        if isinstance(val, StopIteration):
            raise RuntimeError('generator raised StopIteration')
        raise val

    def _yield(self, v):
        """called from the generator thread"""
        self._msg = ('yield', v)
        self._to_con.release()
        self._to_gen.acquire()
        kind, val = self._inbox
        if kind == 'throw':
            raise val
        return val

    def __next__(self):
        return self._resume('next', None)

    def send(self, v):
        return self._resume('next', v)

    def throw(self, typ, val=None, tb=None):
        if isinstance(typ, type):
            exc = val if isinstance(val, BaseException) else (typ() if val is None else typ(val))
        else:
            exc = typ
        return self._resume('throw', exc)

    def close(self):
        if self._done or self._thread is None:
            self._done = True
            return
        try:
            self._resume('throw', GeneratorExit())
        except (GeneratorExit, StopIteration):
            pass
        else:
            raise RuntimeError('generator ignored GeneratorExit')

    def _kill(self):
        if self._done or self._thread is None:
            return
        try:
            self._resume('throw', Abort('path ended'))
        except BaseException:
            pass


class Interp:
    def __init__(self, interpret_modules=('jedi',), sym_containers=False, loop_bound=64,
                 call_depth=120, force=(), native=()):
        self.mods = tuple(interpret_modules)
        self.sym_containers = sym_containers
        self.loop_bound = loop_bound
        self.call_depth = call_depth
        self.depth = 0
        self.ast_cache = {}
        self.encoded = {}           # qualified name -> sha256 of the source interpreted
        self.force = set(force)     # code objects / functions always interpreted
        self.native = set(native)   # functions never interpreted
        self.holders = set()        # ids of real objects known to hold symbolic attributes
        self.handling = []          # stack of exceptions being handled (for bare raise)
        self.stubs = {}             # function -> replacement callable (environment stubs)
        self.nodes_executed = 0
        self.nondet_sets = False    # iteration order of native sets is a solver-chosen permutation
        self._set_orders = 0

    # ------------------------------------------------------------------ symbolic-ness
    def mark_holder(self, obj):
        self.holders.add(id(obj))
        return obj

    def symarg(self, v, depth=3):
        if isinstance(v, Sym):
            return True
        if v is None or isinstance(v, (int, str, bool, float, bytes, type)):
            return False
        if getattr(v, '_pysym_holder', False) or id(v) in self.holders:
            return True
        if depth <= 0:
            return False
        if isinstance(v, (tuple, list)):
            return any(self.symarg(x, depth - 1) for x in v)
        if isinstance(v, dict):
            return any(self.symarg(x, depth - 1) for x in v.values())
        if isinstance(v, types.MethodType):
            return self.symarg(v.__self__, depth - 1)
        if isinstance(v, functools.partial):
            return self.symarg(v.args, depth - 1) or self.symarg(v.keywords, depth - 1)
        return False

    # ------------------------------------------------------------------ function sources
    def fn_ast(self, f):
        code = f.__code__
        node = self.ast_cache.get(code)
        if node is None:
            try:
                src = inspect.getsource(code)
            except (OSError, TypeError) as e:
                raise HarnessError('no source for %r: %s' % (f, e))
            src = textwrap.dedent(src)
            if code.co_name == '<lambda>':
                raise HarnessError('cannot interpret a native lambda: %r' % (f,))
            mod = ast.parse(src)
            node = mod.body[0]
            if not isinstance(node, (ast.FunctionDef, ast.AsyncFunctionDef)):
                raise HarnessError('source of %r is not a def' % (f,))
            self.ast_cache[code] = node
            qn = '%s.%s' % (f.__module__, f.__qualname__)
            self.encoded[qn] = hashlib.sha256(src.encode()).hexdigest()[:16]
        return node

    def interpretable(self, f):
        if not isinstance(f, types.FunctionType):
            return False
        m = f.__module__ or ''
        return any(m == x or m.startswith(x + '.') for x in self.mods)

    def should_interpret(self, f, args, kwargs):
        if f in self.native:
            return False
        if f in self.force or f.__code__ in self.force:
            return True
        if not self.interpretable(f):
            return False
        return self.symarg(args) or self.symarg(kwargs)

    # ------------------------------------------------------------------ calls
    def call(self, f, args=(), kwargs=None):
        kwargs = kwargs or {}
        args = list(args)
        try:
            stub = self.stubs.get(f)
        except TypeError:
            stub = None
        if stub is not None:
            return stub(*args, **kwargs)
        if isinstance(f, types.FunctionType) and f in _BUILTIN_MODELS:
            r = _BUILTIN_MODELS[f](self, args, kwargs)
            if r is not NotImplemented:
                return r
        if isinstance(f, IFunc):
            return self.run_function(f._node, f._env, args, kwargs, f.__name__, f._is_lambda,
                                     defaults=f._defaults)
        if isinstance(f, types.MethodType):
            fn = f.__func__
            if isinstance(fn, IFunc):
                return self.call(fn, [f.__self__] + args, kwargs)
            if isinstance(fn, types.FunctionType):
                stub = self.stubs.get(fn)
                if stub is not None:
                    return stub(f.__self__, *args, **kwargs)
                if self.should_interpret(fn, [f.__self__] + args, kwargs):
                    return self.call_function(fn, [f.__self__] + args, kwargs)
                return self.native_call(f, args, kwargs)
            if isinstance(fn, functools.partial) or hasattr(fn, '__wrapped__'):
                return self.call(fn, [f.__self__] + args, kwargs)
        if isinstance(f, types.FunctionType):
            if self.should_interpret(f, args, kwargs):
                return self.call_function(f, args, kwargs)
            w = getattr(f, '__wrapped__', None)
            # @contextmanager-decorated generator function with symbolic arguments
            if w is not None and f.__code__ is _CM_HELPER_CODE and \
                    isinstance(w, types.FunctionType) and self.should_interpret(w, args, kwargs):
                return contextlib._GeneratorContextManager(
                    lambda *a, **k: self.call_function(w, list(a), k), tuple(args), kwargs)
            return self.native_call(f, args, kwargs)
        if isinstance(f, functools.partial):
            kw = dict(f.keywords)
            kw.update(kwargs)
            return self.call(f.func, list(f.args) + args, kw)
        if isinstance(f, type):
            return self.call_class(f, args, kwargs)
        m = _BUILTIN_MODELS.get(f) if _hashable(f) else None
        if m is not None:
            r = m(self, args, kwargs)
            if r is not NotImplemented:
                return r
        if isinstance(f, types.BuiltinMethodType) or type(f).__name__ in ('method-wrapper',
                                                                           'method_descriptor'):
            r = self.builtin_method(f, args, kwargs)
            if r is not NotImplemented:
                return r
        # callable object whose __call__ lives in an interpreted module
        if not isinstance(f, (types.BuiltinFunctionType, types.BuiltinMethodType)):
            c = getattr(type(f), '__call__', None)
            if isinstance(c, types.FunctionType) and self.should_interpret(c, [f] + args, kwargs):
                return self.call_function(c, [f] + args, kwargs)
        return self.native_call(f, args, kwargs)

    def native_call(self, f, args, kwargs):
        args = [self.to_native(a) for a in args]
        if kwargs:
            kwargs = {k: self.to_native(v) for k, v in kwargs.items()}
        return f(*args, **kwargs)

    def to_native(self, v):
        if isinstance(v, SymDict):
            if any(isinstance(k, Sym) for k in v.keys()):
                raise HarnessError('dict with symbolic keys passed to native code')
            return dict(v.items())
        if isinstance(v, SymSet):
            if any(isinstance(k, Sym) for k in v):
                raise HarnessError('set with symbolic elements passed to native code')
            return set(v)
        return v

    def call_class(self, cls, args, kwargs):
        if cls is SymDict or cls is SymSet:
            return cls(*args, **kwargs)
        if cls in (pathlib.Path, pathlib.PurePath, pathlib.PosixPath, pathlib.PurePosixPath) and \
                (self.symarg(args)):
            if len(args) == 1 and isinstance(args[0], models.SymPath):
                return args[0]
            if len(args) == 1 and isinstance(args[0], SStr):
                return models.SymPath(raw=args[0])
            raise HarnessError('Path(...) of these symbolic arguments is not modelled')
        m = _BUILTIN_MODELS.get(cls)
        if m is not None:
            r = m(self, args, kwargs)
            if r is not NotImplemented:
                return r
            return cls(*args, **kwargs)
        init = cls.__dict__.get('__init__') if '__init__' in cls.__dict__ else \
            inspect.getattr_static(cls, '__init__', None)
        if (self.symarg(args) or self.symarg(kwargs)) and isinstance(init, types.FunctionType) \
                and self.interpretable(init) and cls.__new__ is object.__new__ \
                and type(cls).__call__ is type.__call__:
            obj = object.__new__(cls)
            self.mark_holder(obj)
            self.call_function(init, [obj] + list(args), kwargs)
            return obj
        obj = self.native_call(cls, args, kwargs)
        if (self.symarg(args) or self.symarg(kwargs)) and not isinstance(
                obj, (tuple, list, dict, Sym, int, str, type(None))):
            try:
                self.mark_holder(obj)
            except Exception:
                pass
        return obj

    def call_function(self, f, args, kwargs):
        node = self.fn_ast(f)
        env = CellEnv(f) if f.__closure__ else Env(None, f.__globals__)
        if not f.__closure__:
            env = None
        return self.run_function(node, env, args, kwargs, f.__qualname__, False,
                                 globs=f.__globals__, defaults=(f.__defaults__, f.__kwdefaults__))

    def bind(self, a, env_for_defaults, args, kwargs, name, defaults=None):
        """Python's argument binding for an ast.arguments"""
        kwargs = dict(kwargs)
        out = {}
        pos = [p.arg for p in a.posonlyargs + a.args]
        npos_only = len(a.posonlyargs)
        if len(args) > len(pos) and not a.vararg:
            raise TypeError('%s() takes %d positional arguments but %d were given'
                            % (name, len(pos), len(args)))
        for i, p in enumerate(pos):
            if i < len(args):
                out[p] = args[i]
                if p in kwargs and i >= npos_only:
                    raise TypeError("%s() got multiple values for argument '%s'" % (name, p))
            elif p in kwargs and i >= npos_only:
                out[p] = kwargs.pop(p)
            else:
                di = i - (len(pos) - len(a.defaults))
                if di < 0:
                    raise TypeError("%s() missing required positional argument: '%s'" % (name, p))
                if defaults is not None:
                    out[p] = defaults[0][di]
                else:
                    out[p] = self.ev(a.defaults[di], env_for_defaults)
        if a.vararg:
            out[a.vararg.arg] = tuple(args[len(pos):])
        for p, d in zip(a.kwonlyargs, a.kw_defaults):
            if p.arg in kwargs:
                out[p.arg] = kwargs.pop(p.arg)
            elif d is None:
                raise TypeError("%s() missing required keyword-only argument: '%s'" % (name, p.arg))
            elif defaults is not None:
                out[p.arg] = defaults[1][p.arg]
            else:
                out[p.arg] = self.ev(d, env_for_defaults)
        if a.kwarg:
            out[a.kwarg.arg] = kwargs
        elif kwargs:
            raise TypeError("%s() got an unexpected keyword argument '%s'"
                            % (name, next(iter(kwargs))))
        return out

    def run_function(self, node, outer, args, kwargs, name, is_lambda, globs=None, defaults=None):
        if globs is None:
            globs = outer.globs
        env = Env(outer, globs)
        env.vars.update(self.bind(node.args, outer, args, kwargs, name, defaults))
        if is_lambda:
            return self._guarded(lambda: self.ev(node.body, env))
        for s in node.body:
            if isinstance(s, ast.Nonlocal):
                env.nonlocals = (env.nonlocals or set()) | set(s.names)
            elif isinstance(s, ast.Global):
                env.globals = (env.globals or set()) | set(s.names)
        env.locals = _local_names(node) - (env.nonlocals or set()) - (env.globals or set())
        if _has_yield(node):
            def body(gen):
                env.vars['$gen'] = gen
                try:
                    self.block(node.body, env)
                except _Return as r:
                    return r.v
                return None
            return ThreadGen(self, body)

        def run():
            try:
                self.block(node.body, env)
            except _Return as r:
                return r.v
            return None
        return self._guarded(run)

    def _guarded(self, thunk):
        self.depth += 1
        try:
            if self.depth > self.call_depth:
                raise BoundHit('interpreted call depth > %d' % self.call_depth)
            return thunk()
        finally:
            self.depth -= 1

    # ------------------------------------------------------------------ builtin methods
    def builtin_method(self, f, args, kwargs):
        slf = getattr(f, '__self__', None)
        name = getattr(f, '__name__', '')
        if isinstance(slf, str) and name == 'join' and len(args) == 1 and not isinstance(args[0], (str, list, tuple)):
            items = list(self.iterate(args[0]))         # a generator: look at what it produces
            if any(isinstance(i, Sym) for i in items):
                return models.str_join(slf, items)
            return slf.join(items)
        if isinstance(slf, str) and (self.symarg(args)):
            m = models.STR_METHODS.get(name)
            if m is not None:
                return m(SStr(core.zstrval(slf)), *args, **kwargs)
        if isinstance(slf, _re.Pattern) and name in ('match', 'search', 'fullmatch', 'finditer') \
                and args and isinstance(args[0], str) and (self.symarg(args[1:]) or self.symarg(kwargs)):
            n = len(args[0])
            cargs = [args[0]] + [models.concretize_int(a, -1, n + 1) for a in args[1:]]
            ckw = {k: models.concretize_int(v, -1, n + 1) for k, v in kwargs.items()}
            return f(*cargs, **ckw)
        if isinstance(slf, (list, tuple)) and name == 'count' and (self.symarg(args) or self.symarg(slf)):
            acc = []
            for x in slf:
                r = self.eq(x, args[0])
                if r is True:
                    acc.append(z3.IntVal(1))
                elif r is not False:
                    acc.append(z3.If(zbool(r), z3.IntVal(1), z3.IntVal(0)))
            return mk_int(z3.Sum(*acc)) if acc else 0
        if isinstance(slf, dict) and not isinstance(slf, SymDict) and args and isinstance(args[0], Sym):
            if name in ('get', '__getitem__', '__contains__', 'pop', 'setdefault'):
                return self.dict_sym_lookup(slf, name, args)
        if isinstance(slf, (set, frozenset)) and args and isinstance(args[0], Sym):
            if name == '__contains__':
                return self.contains(slf, args[0])
            raise HarnessError('symbolic element into a native set (%s); use sym_containers' % name)
        return NotImplemented

    def dict_sym_lookup(self, d, name, args):
        key = args[0]
        for k in list(d.keys()):
            r = sym_eq(k, key)
            if r is True or (r is not False and bool(r)):
                if name == '__contains__':
                    return True
                if name == 'pop':
                    return d.pop(k)
                return d[k]
        if name == '__contains__':
            return False
        if name == 'get':
            return args[1] if len(args) > 1 else None
        if name == 'pop' and len(args) > 1:
            return args[1]
        if name == 'setdefault':
            raise HarnessError('symbolic key stored into a native dict; use sym_containers')
        raise KeyError(key)

    # ------------------------------------------------------------------ statements
    def block(self, stmts, env):
        for s in stmts:
            self.st(s, env)

    def st(self, s, env):
        self.nodes_executed += 1
        m = _ST.get(type(s))
        if m is None:
            raise HarnessError('statement not modelled: %s' % ast.dump(s)[:100])
        return m(self, s, env)

    def st_Expr(self, s, env):
        self.ev(s.value, env)

    def st_Pass(self, s, env):
        pass

    def st_Assign(self, s, env):
        v = self.ev(s.value, env)
        for tg in s.targets:
            self.assign(tg, v, env)

    def st_AnnAssign(self, s, env):
        if s.value is not None:
            self.assign(s.target, self.ev(s.value, env), env)

    def st_AugAssign(self, s, env):
        t = s.target
        if isinstance(t, ast.Name):
            cur = env.lookup(t.id)
            new = self.inplace(s.op, cur, self.ev(s.value, env))
            env.store(t.id, new)
        elif isinstance(t, ast.Attribute):
            o = self.ev(t.value, env)
            cur = self.getattr(o, t.attr)
            new = self.inplace(s.op, cur, self.ev(s.value, env))
            self.setattr(o, t.attr, new)
        elif isinstance(t, ast.Subscript):
            o = self.ev(t.value, env)
            i = self.ev_slice(t.slice, env)
            cur = self.getitem(o, i)
            new = self.inplace(s.op, cur, self.ev(s.value, env))
            self.setitem(o, i, new)
        else:
            raise HarnessError('augassign target')

    def inplace(self, op, cur, val):
        if isinstance(cur, list) and isinstance(op, ast.Add):
            cur.extend(val)
            return cur
        if isinstance(cur, (set, SymSet)) and isinstance(op, ast.BitOr):
            cur.update(val)
            return cur
        if isinstance(cur, (dict, SymDict)) and isinstance(op, ast.BitOr):
            cur.update(val)
            return cur
        return self.binop(op, cur, val)

    def st_Return(self, s, env):
        raise _Return(self.ev(s.value, env) if s.value is not None else None)

    def st_If(self, s, env):
        if self.truth(self.ev(s.test, env)):
            self.block(s.body, env)
        else:
            self.block(s.orelse, env)

    def st_While(self, s, env):
        n = 0
        while self.truth(self.ev(s.test, env)):
            n += 1
            if n > self.loop_bound:
                raise BoundHit('while loop unrolled more than %d times (line %d)'
                               % (self.loop_bound, s.lineno))
            try:
                self.block(s.body, env)
            except _Break:
                return
            except _Continue:
                continue
        self.block(s.orelse, env)

    def st_For(self, s, env):
        it = self.iterate(self.ev(s.iter, env))
        n = 0
        while True:
            try:
                item = next(it)
            except StopIteration:
                break
            n += 1
            if n > 4096:
                raise BoundHit('for loop over more than 4096 items')
            self.assign(s.target, item, env)
            try:
                self.block(s.body, env)
            except _Break:
                return
            except _Continue:
                continue
        self.block(s.orelse, env)

    def iterate(self, v):
        if isinstance(v, SStr):
            # fork over the length (bounded), then yield the characters
            n = models.concretize_int(models.slen(v), 0, 17)
            if n >= 17:
                raise BoundHit('iteration over a symbolic string longer than 16')
            return iter([models.str_getitem(v, i) for i in range(n)])
        if isinstance(v, Sym):
            raise TypeError("'%s' object is not iterable" % type(v).__name__)
        if self.nondet_sets and isinstance(v, (set, frozenset)) and len(v) > 1:
            return iter(self.arbitrary_order(list(v)))
        it = getattr(type(v), '__iter__', None)
        if isinstance(it, types.FunctionType) and self.should_interpret(it, [v], {}):
            return self.call_function(it, [v], {})
        return iter(v)

    def arbitrary_order(self, items):
        """the iteration order of a hash set depends on the string-hash seed / object addresses: make it a symbolic
        choice (all permutations up to 3 elements; identity, reversed and one rotation beyond)"""
        import itertools
        n = len(items)
        if n <= 3:
            orders = [list(p) for p in itertools.permutations(range(n))]
        else:
            idx = list(range(n))
            orders = [idx, idx[::-1], idx[1:] + idx[:1]]
        eng = engine()
        self._set_orders += 1
        v = eng.new_int('set_iteration_order_%d' % self._set_orders)
        eng.add(z3.And(v.e >= 0, v.e < len(orders)))
        k = len(orders) - 1
        for j in range(len(orders) - 1):
            if eng.branch(v.e == j):
                k = j
                break
        return [items[i] for i in orders[k]]

    def st_Raise(self, s, env):
        if s.exc is None:
            if not self.handling:
                raise RuntimeError('No active exception to reraise')
            raise self.handling[-1]
        exc = self.ev(s.exc, env)
        if isinstance(exc, type):
            exc = self.call(exc, [], {})
        if s.cause is not None:
            cause = self.ev(s.cause, env)
            exc.__cause__ = cause
        raise exc

    def st_Break(self, s, env):
        raise _Break()

    def st_Continue(self, s, env):
        raise _Continue()

    def st_Global(self, s, env):
        pass

    def st_Nonlocal(self, s, env):
        pass

    def st_Import(self, s, env):
        for a in s.names:
            mod = __import__(a.name)
            if a.asname:
                for part in a.name.split('.')[1:]:
                    mod = getattr(mod, part)
                env.store(a.asname, mod)
            else:
                env.store(a.name.split('.')[0], mod)

    def st_ImportFrom(self, s, env):
        pkg = env.globs.get('__package__')
        import importlib
        name = ('.' * s.level) + (s.module or '')
        mod = importlib.import_module(name, pkg) if s.level else importlib.import_module(name)
        for a in s.names:
            try:
                v = getattr(mod, a.name)
            except AttributeError:
                v = importlib.import_module(name + '.' + a.name, pkg)
            env.store(a.asname or a.name, v)

    def st_Assert(self, s, env):
        if not self.truth(self.ev(s.test, env)):
            if s.msg is not None:
                raise AssertionError(self.ev(s.msg, env))
            raise AssertionError()

    def st_Delete(self, s, env):
        for t in s.targets:
            if isinstance(t, ast.Name):
                env.delete(t.id)
            elif isinstance(t, ast.Subscript):
                o = self.ev(t.value, env)
                i = self.ev_slice(t.slice, env)
                self.delitem(o, i)
            elif isinstance(t, ast.Attribute):
                delattr(self.ev(t.value, env), t.attr)
            else:
                raise HarnessError('del target')

    def delitem(self, o, i):
        if isinstance(i, Sym) and isinstance(o, dict) and not isinstance(o, SymDict):
            for k in list(o.keys()):
                r = sym_eq(k, i)
                if r is True or (r is not False and bool(r)):
                    del o[k]
                    return
            raise KeyError(i)
        if isinstance(i, Sym) and isinstance(o, list):
            n = len(o)
            for k in range(n):
                if bool(mk_bool(z3.Or(as_sint(i).e == k, as_sint(i).e == k - n))):
                    del o[k]
                    return
            raise IndexError('list assignment index out of range')
        del o[i]

    def st_FunctionDef(self, s, env):
        f = IFunc(self, s, env, s.name)
        for d in reversed(s.decorator_list):
            dec = self.ev(d, env)
            f = self.call(dec, [f], {})
        env.store(s.name, f)

    def st_ClassDef(self, s, env):
        """simple classes only (no metaclass keywords): the body runs in its own namespace, functions
        become interpreted methods"""
        if s.keywords:
            raise HarnessError('class keywords (metaclass=...) inside interpreted code are not modelled')
        bases = tuple(self.ev(b, env) for b in s.bases)
        body_env = Env(env, env.globs)
        self.block(s.body, body_env)
        ns = dict(body_env.vars)
        ns.setdefault('__module__', env.globs.get('__name__', '?'))
        cls = type(s.name, bases, ns)
        for d in reversed(s.decorator_list):
            cls = self.call(self.ev(d, env), [cls], {})
        env.store(s.name, cls)

    def st_With(self, s, env):
        self._with(s.items, s.body, env)

    def _with(self, items, body, env):
        if not items:
            return self.block(body, env)
        item = items[0]
        mgr = self.ev(item.context_expr, env)
        enter = self.getattr(mgr, '__enter__')
        exit_ = self.getattr(mgr, '__exit__')
        v = self.call(enter, [], {})
        if item.optional_vars is not None:
            self.assign(item.optional_vars, v, env)
        try:
            self._with(items[1:], body, env)
        except (Abort, BoundHit, HarnessError):
            raise
        except (_Return, _Break, _Continue):
            self.call(exit_, [None, None, None], {})
            raise
        except BaseException as e:
            if not self.truth(self.call(exit_, [type(e), e, e.__traceback__], {})):
                raise
        else:
            self.call(exit_, [None, None, None], {})

    def st_Try(self, s, env):
        try:
            try:
                self.block(s.body, env)
            except _CONTROL:
                raise
            except BaseException as e:
                handled = False
                for h in s.handlers:
                    if h.type is None:
                        match = True
                    else:
                        ht = self.ev(h.type, env)
                        match = isinstance(e, ht)
                    if match:
                        handled = True
                        if h.name:
                            env.store(h.name, e)
                        self.handling.append(e)
                        try:
                            self.block(h.body, env)
                        finally:
                            self.handling.pop()
                        break
                if not handled:
                    raise
            else:
                self.block(s.orelse, env)
        except (Abort, BoundHit, HarnessError):
            raise
        except BaseException:
            if s.finalbody:
                self.block(s.finalbody, env)
            raise
        else:
            if s.finalbody:
                self.block(s.finalbody, env)

    # ------------------------------------------------------------------ assignment
    def assign(self, tg, v, env):
        if isinstance(tg, ast.Name):
            env.store(tg.id, v)
        elif isinstance(tg, (ast.Tuple, ast.List)):
            star = [i for i, e in enumerate(tg.elts) if isinstance(e, ast.Starred)]
            if isinstance(v, SStr):
                raise HarnessError('unpacking a symbolic string')
            vs = list(self.iterate(v))
            if star:
                k = star[0]
                after = len(tg.elts) - k - 1
                if len(vs) < len(tg.elts) - 1:
                    raise ValueError('not enough values to unpack')
                for e, x in zip(tg.elts[:k], vs[:k]):
                    self.assign(e, x, env)
                self.assign(tg.elts[k].value, vs[k:len(vs) - after], env)
                for e, x in zip(tg.elts[k + 1:], vs[len(vs) - after:]):
                    self.assign(e, x, env)
            else:
                if len(vs) < len(tg.elts):
                    raise ValueError('not enough values to unpack (expected %d, got %d)'
                                     % (len(tg.elts), len(vs)))
                if len(vs) > len(tg.elts):
                    raise ValueError('too many values to unpack (expected %d)' % len(tg.elts))
                for e, x in zip(tg.elts, vs):
                    self.assign(e, x, env)
        elif isinstance(tg, ast.Attribute):
            self.setattr(self.ev(tg.value, env), tg.attr, v)
        elif isinstance(tg, ast.Subscript):
            o = self.ev(tg.value, env)
            self.setitem(o, self.ev_slice(tg.slice, env), v)
        else:
            raise HarnessError('assignment target %s' % type(tg).__name__)

    def setattr(self, o, name, v):
        setattr(o, name, v)
        if isinstance(v, Sym) or self.symarg(v):
            try:
                self.holders.add(id(o))
            except Exception:
                pass

    def setitem(self, o, i, v):
        if isinstance(i, Sym):
            if isinstance(o, list):
                n = len(o)
                ii = as_sint(i)
                for k in range(n):
                    if bool(mk_bool(z3.Or(ii.e == k, ii.e == k - n))):
                        o[k] = v
                        return
                raise IndexError('list assignment index out of range')
            if isinstance(o, dict) and not isinstance(o, SymDict):
                for k in list(o.keys()):
                    r = sym_eq(k, i)
                    if r is True or (r is not False and bool(r)):
                        o[k] = v
                        return
                raise HarnessError('symbolic key stored into a native dict; use sym_containers')
        if isinstance(i, slice) and (self.symarg(i.start) or self.symarg(i.stop)):
            n = len(o)
            i = slice(models.concretize_int(i.start, -n - 1, n + 1),
                      models.concretize_int(i.stop, -n - 1, n + 1), i.step)
        o[i] = v

    # ------------------------------------------------------------------ expressions
    def truth(self, v):
        if isinstance(v, Sym):
            return bool(v)
        if v is None or isinstance(v, (bool, int, str, list, tuple, dict)):
            return bool(v)
        t = type(v)
        b = getattr(t, '__bool__', None)
        if isinstance(b, types.FunctionType) and self.should_interpret(b, [v], {}):
            return self.truth(self.call_function(b, [v], {}))
        ln = getattr(t, '__len__', None)
        if b is None and isinstance(ln, types.FunctionType) and self.should_interpret(ln, [v], {}):
            return self.truth(self.call_function(ln, [v], {}) != 0)
        return bool(v)

    def ev(self, e, env):
        self.nodes_executed += 1
        m = _EV.get(type(e))
        if m is None:
            raise HarnessError('expression not modelled: %s' % ast.dump(e)[:100])
        return m(self, e, env)

    def ev_Constant(self, e, env):
        return e.value

    def ev_Name(self, e, env):
        if env is None:
            raise HarnessError('no environment')
        return env.lookup(e.id)

    def ev_Tuple(self, e, env):
        return tuple(self._elts(e.elts, env))

    def ev_List(self, e, env):
        return self._elts(e.elts, env)

    def _elts(self, elts, env):
        out = []
        for x in elts:
            if isinstance(x, ast.Starred):
                out.extend(self.iterate(self.ev(x.value, env)))
            else:
                out.append(self.ev(x, env))
        return out

    def ev_Set(self, e, env):
        items = self._elts(e.elts, env)
        if self.sym_containers or any(isinstance(i, Sym) for i in items):
            return SymSet(items)
        return set(items)

    def ev_Dict(self, e, env):
        d = SymDict() if self.sym_containers else {}
        for k, v in zip(e.keys, e.values):
            if k is None:
                d.update(self.ev(v, env))
            else:
                kk = self.ev(k, env)
                if isinstance(kk, Sym) and not isinstance(d, SymDict):
                    d = SymDict(d)
                d[kk] = self.ev(v, env)
        return d

    def ev_Attribute(self, e, env):
        return self.getattr(self.ev(e.value, env), e.attr)

    def getattr(self, o, name):
        if isinstance(o, SStr):
            m = models.STR_METHODS.get(name)
            if m is None:
                raise HarnessError('str.%s is not modelled for symbolic strings' % name)
            return functools.partial(m, o)
        if isinstance(o, Sym):
            raise HarnessError('attribute %s of %r' % (name, o))
        if id(o) in self.holders or getattr(o, '_pysym_holder', False):
            static = inspect.getattr_static(type(o), name, None)
            if isinstance(static, property) and isinstance(static.fget, types.FunctionType) \
                    and self.interpretable(static.fget) and name not in getattr(o, '__dict__', {}):
                return self.call_function(static.fget, [o], {})
        return getattr(o, name)

    def ev_Call(self, e, env):
        f = self.ev(e.func, env)
        args = []
        for a in e.args:
            if isinstance(a, ast.Starred):
                args.extend(self.iterate(self.ev(a.value, env)))
            else:
                args.append(self.ev(a, env))
        kwargs = {}
        for k in e.keywords:
            if k.arg is None:
                m = self.ev(k.value, env)
                for kk in m.keys():
                    kwargs[kk] = m[kk]
            else:
                kwargs[k.arg] = self.ev(k.value, env)
        if f is super and not args:
            return super(env.lookup('__class__'), env.lookup(_first_param(env)))
        if f is locals:
            return dict(env.vars)
        return self.call(f, args, kwargs)

    def ev_Compare(self, e, env):
        left = self.ev(e.left, env)
        if len(e.ops) == 1:
            return self.compare(e.ops[0], left, self.ev(e.comparators[0], env))
        for op, c in zip(e.ops, e.comparators):
            right = self.ev(c, env)
            r = self.compare(op, left, right)
            if not self.truth(r):
                return False
            left = right
        return True

    def compare(self, op, a, b):
        t = type(op)
        if t is ast.Is:
            return a is b
        if t is ast.IsNot:
            return a is not b
        if t is ast.In:
            return self.contains(b, a)
        if t is ast.NotIn:
            return sym_not(self.contains(b, a))
        if t is ast.Eq:
            return self.eq(a, b)
        if t is ast.NotEq:
            r = self.dunder2('__ne__', a, b)
            if r is not NotImplemented:
                return r
            return sym_not(self.eq(a, b))
        sym = self.symarg(a) or self.symarg(b)
        if not sym:
            return _CMP[t](a, b)
        if t is ast.Lt:
            r = self.dunder2('__lt__', a, b)
            return r if r is not NotImplemented else sym_lt(a, b, True)
        if t is ast.LtE:
            r = self.dunder2('__le__', a, b)
            return r if r is not NotImplemented else sym_lt(a, b, False)
        if t is ast.Gt:
            r = self.dunder2('__gt__', a, b)
            return r if r is not NotImplemented else sym_lt(b, a, True)
        if t is ast.GtE:
            r = self.dunder2('__ge__', a, b)
            return r if r is not NotImplemented else sym_lt(b, a, False)
        raise HarnessError('comparison %s' % t.__name__)

    def dunder2(self, name, a, b):
        m = getattr(type(a), name, None)
        if isinstance(m, types.FunctionType) and self.should_interpret(m, [a, b], {}):
            return self.call_function(m, [a, b], {})
        return NotImplemented

    def eq(self, a, b):
        r = self.dunder2('__eq__', a, b)
        if r is not NotImplemented:
            return r
        r = self.dunder2('__eq__', b, a)
        if r is not NotImplemented:
            return r
        return sym_eq(a, b)

    def contains(self, container, item):
        if isinstance(container, (SStr, str)) and isinstance(item, (SStr, str)):
            if isinstance(container, str) and isinstance(item, str):
                return item in container
            return models.str_contains(container, item)
        if isinstance(container, (SymDict, SymSet)):
            return item in container
        if self.symarg(item) or self.symarg(container):
            c = getattr(type(container), '__contains__', None)
            if isinstance(c, types.FunctionType) and self.should_interpret(c, [container, item], {}):
                return self.call_function(c, [container, item], {})
            if isinstance(container, (list, tuple, set, frozenset, dict)) or \
                    hasattr(container, '__iter__'):
                # disjunction of equalities, no forking
                acc = []
                for x in (container.keys() if isinstance(container, dict) else container):
                    r = self.eq(x, item)
                    if r is True:
                        return True
                    if r is not False:
                        acc.append(zbool(r))
                return mk_bool(z3.Or(*acc)) if acc else False
        return item in container

    def ev_BoolOp(self, e, env):
        is_and = isinstance(e.op, ast.And)
        v = None
        for i, x in enumerate(e.values):
            v = self.ev(x, env)
            if i == len(e.values) - 1:
                return v
            tv = self.truth(v)
            if is_and and not tv:
                return v if not isinstance(v, SBool) else False
            if not is_and and tv:
                return v if not isinstance(v, SBool) else True
        return v

    def ev_UnaryOp(self, e, env):
        v = self.ev(e.operand, env)
        if isinstance(e.op, ast.Not):
            if isinstance(v, SBool):
                return sym_not(v)
            return not self.truth(v)
        if isinstance(e.op, ast.USub):
            return -as_sint(v) if isinstance(v, Sym) else -v
        if isinstance(e.op, ast.UAdd):
            return +v
        if isinstance(e.op, ast.Invert):
            return ~v
        raise HarnessError('unary op')

    def ev_BinOp(self, e, env):
        return self.binop(e.op, self.ev(e.left, env), self.ev(e.right, env))

    def binop(self, op, a, b):
        t = type(op)
        if not (isinstance(a, Sym) or isinstance(b, Sym)):
            if t is ast.Mod and isinstance(a, str) and self.symarg(b):
                return engine().opaque_str('fmt')
            if t is ast.Add and isinstance(a, (list, tuple)):
                return a + b
            if t is ast.BitOr and isinstance(a, SymSet):
                return a | b
            return _BIN[t](a, b)
        if t is ast.Mod and isinstance(a, (str, SStr)):
            return engine().opaque_str('fmt')
        if t is ast.Add:
            if isinstance(a, (SStr, str)) or isinstance(b, (SStr, str)):
                if not (isinstance(a, (SStr, str)) and isinstance(b, (SStr, str))):
                    raise TypeError('can only concatenate str to str')
                return mk_str(z3.Concat(z(a), z(b)))
            return as_sint(a) + as_sint(b)
        if t is ast.Mult and (isinstance(a, (str, SStr, list, tuple)) or isinstance(b, (str, SStr, list, tuple))):
            seq, n = (a, b) if isinstance(a, (str, SStr, list, tuple)) else (b, a)
            n = models.concretize_int(n, 0, 9)
            if n >= 9:
                raise BoundHit('sequence repetition count >= 9')
            if isinstance(seq, SStr):
                return models.str_join('', [seq] * n) if n else ''
            return seq * n
        a, b = as_sint(a), as_sint(b)
        if t is ast.Sub:
            return a - b
        if t is ast.Mult:
            return a * b
        if t is ast.FloorDiv:
            return core.floordiv(a, b)
        if t is ast.Mod:
            return core.pymod(a, b)
        if t is ast.BitOr:
            return mk_bool(z3.Or(zbool(a), zbool(b)))
        if t is ast.BitAnd:
            return mk_bool(z3.And(zbool(a), zbool(b)))
        if t is ast.Div:
            raise HarnessError('true division of symbolic ints (floats are not modelled)')
        raise HarnessError('binary op %s on symbolic values' % t.__name__)

    def ev_IfExp(self, e, env):
        return self.ev(e.body if self.truth(self.ev(e.test, env)) else e.orelse, env)

    def ev_Subscript(self, e, env):
        o = self.ev(e.value, env)
        return self.getitem(o, self.ev_slice(e.slice, env))

    def ev_slice(self, s, env):
        if isinstance(s, ast.Slice):
            return slice(self.ev(s.lower, env) if s.lower is not None else None,
                         self.ev(s.upper, env) if s.upper is not None else None,
                         self.ev(s.step, env) if s.step is not None else None)
        return self.ev(s, env)

    def ev_Slice(self, s, env):
        return self.ev_slice(s, env)

    def getitem(self, o, i):
        if isinstance(o, SStr):
            return models.str_getitem(o, i)
        symi = isinstance(i, Sym) or (isinstance(i, slice) and (
            isinstance(i.start, Sym) or isinstance(i.stop, Sym) or isinstance(i.step, Sym)))
        if isinstance(o, str) and symi:
            if len(o) <= 120:
                # a concrete text sliced at a symbolic position: fork over its (finite) positions so
                # that the result stays concrete (regexes and tokenizers can then run natively)
                return models.seq_getitem(o, i)
            return models.str_getitem(SStr(core.zstrval(o)), i)
        if symi and isinstance(o, (list, tuple)):
            return models.seq_getitem(o, i)
        if isinstance(i, Sym) and isinstance(o, dict) and not isinstance(o, SymDict):
            return self.dict_sym_lookup(o, '__getitem__', [i])
        g = getattr(type(o), '__getitem__', None)
        if isinstance(g, types.FunctionType) and self.should_interpret(g, [o, i], {}):
            return self.call_function(g, [o, i], {})
        return o[i]

    def ev_Lambda(self, e, env):
        return IFunc(self, e, env, '<lambda>', is_lambda=True)

    def ev_JoinedStr(self, e, env):
        parts = [self.ev(v, env) for v in e.values]
        if any(isinstance(p, Sym) or p is _OPAQUE_FMT for p in parts):
            return engine().opaque_str('fmt')
        return ''.join(parts)

    def ev_FormattedValue(self, e, env):
        v = self.ev(e.value, env)
        if self.symarg(v):
            return _OPAQUE_FMT
        if e.conversion == 114:
            v = repr(v)
        elif e.conversion == 115:
            v = str(v)
        spec = self.ev(e.format_spec, env) if e.format_spec is not None else ''
        return format(v, spec)

    def ev_Starred(self, e, env):
        raise HarnessError('starred expression outside call/display')

    def ev_NamedExpr(self, e, env):
        v = self.ev(e.value, env)
        env.store(e.target.id, v)
        return v

    def ev_Yield(self, e, env):
        gen = env.lookup('$gen')
        return gen._yield(self.ev(e.value, env) if e.value is not None else None)

    def ev_YieldFrom(self, e, env):
        gen = env.lookup('$gen')
        it = self.iterate(self.ev(e.value, env))
        while True:
            try:
                item = next(it)
            except StopIteration as s:
                return s.value
            gen._yield(item)

    # comprehensions --------------------------------------------------------------------
    def _comp(self, generators, env, emit):
        """native generator over the comprehension's iteration space (lazy)"""
        def rec(i, env):
            if i == len(generators):
                yield emit(env)
                return
            g = generators[i]
            it = self.iterate(self.ev(g.iter, env))
            n = 0
            for item in it:
                n += 1
                if n > 4096:
                    raise BoundHit('comprehension over more than 4096 items')
                self.assign(g.target, item, env)
                if all(self.truth(self.ev(c, env)) for c in g.ifs):
                    yield from rec(i + 1, env)
        return rec(0, Env(env, env.globs))

    def ev_ListComp(self, e, env):
        return list(self._comp(e.generators, env, lambda en: self.ev(e.elt, en)))

    def ev_SetComp(self, e, env):
        items = list(self._comp(e.generators, env, lambda en: self.ev(e.elt, en)))
        if self.sym_containers or any(isinstance(i, Sym) for i in items):
            return SymSet(items)
        return set(items)

    def ev_DictComp(self, e, env):
        items = list(self._comp(e.generators, env,
                                lambda en: (self.ev(e.key, en), self.ev(e.value, en))))
        if self.sym_containers or any(isinstance(k, Sym) for k, v in items):
            return SymDict(items)
        return dict(items)

    def ev_GeneratorExp(self, e, env):
        return self._comp(e.generators, env, lambda en: self.ev(e.elt, en))


_OPAQUE_FMT = object()
_ST = {getattr(ast, n[3:]): f for n, f in vars(Interp).items() if n.startswith('st_') and hasattr(ast, n[3:])}
_EV = {getattr(ast, n[3:]): f for n, f in vars(Interp).items() if n.startswith('ev_') and hasattr(ast, n[3:])}


def _first_param(env):
    # name of the first parameter of the enclosing function (for zero-arg super())
    for k in env.vars:
        return k
    raise HarnessError('super() without arguments outside a method')


def _hashable(f):
    try:
        hash(f)
        return True
    except Exception:
        return False


_CM_HELPER_CODE = contextlib.contextmanager(lambda: (yield)).__code__

_CMP = {ast.Lt: operator.lt, ast.LtE: operator.le, ast.Gt: operator.gt, ast.GtE: operator.ge}
_BIN = {ast.Add: operator.add, ast.Sub: operator.sub, ast.Mult: operator.mul,
        ast.BitOr: operator.or_, ast.BitAnd: operator.and_, ast.BitXor: operator.xor,
        ast.Mod: operator.mod, ast.Div: operator.truediv, ast.FloorDiv: operator.floordiv,
        ast.Pow: operator.pow, ast.LShift: operator.lshift, ast.RShift: operator.rshift,
        ast.MatMult: operator.matmul}


# ------------------------------------------------------------------------------ builtin models

def _m_len(I, args, kw):
    v = args[0]
    if isinstance(v, SStr):
        return mk_int(z3.Length(v.e))
    if isinstance(v, (SymDict, SymSet)):
        return len(v)
    ln = getattr(type(v), '__len__', None)
    if isinstance(ln, types.FunctionType) and I.should_interpret(ln, [v], {}):
        return I.call_function(ln, [v], {})
    return len(v)


import pathlib  # noqa: E402
import re as _re  # noqa: E402

_PYTYPE = {SInt: int, SBool: bool, SStr: str, SymDict: dict, SymSet: set,
           models.SymPath: pathlib.PosixPath}


def _m_isinstance(I, args, kw):
    v, t = args
    py = _PYTYPE.get(type(v))
    if py is None:
        return isinstance(v, t)
    if isinstance(t, tuple):
        return any(issubclass(py, x) for x in t)
    return issubclass(py, t)


def _m_type(I, args, kw):
    if len(args) == 1:
        py = _PYTYPE.get(type(args[0]))
        return py if py is not None else type(args[0])
    return type(*args, **kw)


def _m_str(I, args, kw):
    if not args:
        return ''
    v = args[0]
    if isinstance(v, SStr):
        return v
    if isinstance(v, models.SymPath):
        return v.to_str()
    if isinstance(v, Sym):
        return engine().opaque_str('str')
    s = getattr(type(v), '__str__', None)
    if isinstance(s, types.FunctionType) and I.should_interpret(s, [v], {}):
        return I.call_function(s, [v], {})
    return str(*args, **kw)


def _m_repr(I, args, kw):
    v = args[0]
    if isinstance(v, Sym) or I.symarg(v):
        return engine().opaque_str('repr')
    return repr(v)


def _m_int(I, args, kw):
    if args and isinstance(args[0], (SInt, SBool)):
        return as_sint(args[0])
    if args and isinstance(args[0], SStr):
        raise HarnessError('int(symbolic str) not modelled')
    return int(*args, **kw)


def _m_bool(I, args, kw):
    if not args:
        return False
    v = args[0]
    if isinstance(v, SBool):
        return v
    if isinstance(v, Sym):
        return mk_bool(zbool(v))
    return I.truth(v)


def _m_max(I, args, kw):
    return _minmax(I, args, kw, True)


def _m_min(I, args, kw):
    return _minmax(I, args, kw, False)


def _minmax(I, args, kw, is_max):
    items = list(I.iterate(args[0])) if len(args) == 1 else list(args)
    if not I.symarg(items) or kw.get('key') is not None:
        if 'key' in kw and kw['key'] is not None:
            key = kw['key']
            kw = dict(kw)
            kw['key'] = lambda x: I.call(key, [x], {})
        f = max if is_max else min
        return f(items, **kw) if len(args) == 1 else f(*items, **kw)
    if not items:
        if 'default' in kw:
            return kw['default']
        raise ValueError('max() arg is an empty sequence')
    if all(isinstance(i, (SInt, SBool, int)) for i in items):
        acc = z(as_sint(items[0]))
        for it in items[1:]:
            zi = z(as_sint(it))
            acc = z3.If(zi > acc, zi, acc) if is_max else z3.If(zi < acc, zi, acc)
        return mk_int(acc)
    best = items[0]
    for it in items[1:]:
        if bool(sym_lt(best, it)) if is_max else bool(sym_lt(it, best)):
            best = it
    return best


def _m_abs(I, args, kw):
    return abs(as_sint(args[0])) if isinstance(args[0], Sym) else abs(args[0])


def _m_sum(I, args, kw):
    items = list(I.iterate(args[0]))
    acc = args[1] if len(args) > 1 else 0
    for it in items:
        acc = I.binop(ast.Add(), acc, it)
    return acc


def _m_sorted(I, args, kw):
    items = list(I.iterate(args[0]))
    key = kw.get('key')
    rev = kw.get('reverse', False)
    if key is not None:
        keyed = [(I.call(key, [x], {}), x) for x in items]
    else:
        keyed = [(x, x) for x in items]
    # stable insertion sort, forking on symbolic comparisons
    out = []
    for k, x in keyed:
        pos = len(out)
        while pos > 0:
            pk = out[pos - 1][0]
            lt = I.compare(ast.Lt(), k, pk) if not rev else I.compare(ast.Lt(), pk, k)
            if I.truth(lt):
                pos -= 1
            else:
                break
        out.insert(pos, (k, x))
    return [x for k, x in out]


def _m_set(I, args, kw):
    items = list(I.iterate(args[0])) if args else []
    if I.sym_containers or any(isinstance(i, Sym) for i in items):
        return SymSet(items)
    return set(items)


def _m_frozenset(I, args, kw):
    items = list(I.iterate(args[0])) if args else []
    if any(isinstance(i, Sym) for i in items):
        return SymSet(items)
    return frozenset(items)


def _m_dict(I, args, kw):
    if I.sym_containers or (args and isinstance(args[0], SymDict)):
        return SymDict(*args, **kw)
    if args and not isinstance(args[0], dict):
        items = [tuple(x) for x in I.iterate(args[0])]
        if any(isinstance(k, Sym) for k, v in items):
            return SymDict(items, **kw)
        return dict(items, **kw)
    return dict(*args, **kw)


def _m_list(I, args, kw):
    return list(I.iterate(args[0])) if args else []


def _m_tuple(I, args, kw):
    return tuple(I.iterate(args[0])) if args else ()


def _m_range(I, args, kw):
    if not any(isinstance(a, Sym) for a in args):
        return range(*args)
    conc = [models.concretize_int(a, -1, 33) if isinstance(a, Sym) else a for a in args]
    if any(isinstance(a, Sym) and c >= 33 for a, c in zip(args, conc)):
        raise BoundHit('range() with a symbolic bound >= 33')
    return range(*conc)


def _m_enumerate(I, args, kw):
    return enumerate(I.iterate(args[0]), *args[1:], **kw)


def _m_zip(I, args, kw):
    return zip(*[I.iterate(a) for a in args], **kw)


def _m_reversed(I, args, kw):
    return reversed(args[0])


def _m_any(I, args, kw):
    for x in I.iterate(args[0]):
        if I.truth(x):
            return True
    return False


def _m_all(I, args, kw):
    for x in I.iterate(args[0]):
        if not I.truth(x):
            return False
    return True


def _m_map(I, args, kw):
    f = args[0]
    its = [I.iterate(a) for a in args[1:]]
    return (I.call(f, list(xs), {}) for xs in zip(*its))


def _m_filter(I, args, kw):
    f, it = args
    if f is None:
        return (x for x in I.iterate(it) if I.truth(x))
    return (x for x in I.iterate(it) if I.truth(I.call(f, [x], {})))


def _m_next(I, args, kw):
    it = args[0]
    try:
        return next(it)
    except StopIteration:
        if len(args) > 1:
            return args[1]
        raise


def _m_iter(I, args, kw):
    if len(args) == 1:
        return I.iterate(args[0])
    return iter(*args)


def _m_hash(I, args, kw):
    if I.symarg(args[0]):
        raise HarnessError('hash() of a symbolic value')
    return hash(args[0])


def _m_print(I, args, kw):
    return None


def _m_getattr(I, args, kw):
    if len(args) == 3:
        try:
            return I.getattr(args[0], args[1])
        except AttributeError:
            return args[2]
    return I.getattr(args[0], args[1])


def _m_setattr(I, args, kw):
    I.setattr(*args)


def _m_ord(I, args, kw):
    if isinstance(args[0], SStr):
        return mk_int(z3.StrToCode(args[0].e))
    return ord(args[0])


def _m_chr(I, args, kw):
    if isinstance(args[0], SInt):
        return mk_str(z3.StrFromCode(args[0].e))
    return chr(args[0])


_BUILTIN_MODELS = {
    len: _m_len, isinstance: _m_isinstance, type: _m_type, str: _m_str, repr: _m_repr,
    int: _m_int, bool: _m_bool, max: _m_max, min: _m_min, abs: _m_abs, sum: _m_sum,
    sorted: _m_sorted, set: _m_set, frozenset: _m_frozenset, dict: _m_dict, list: _m_list,
    tuple: _m_tuple, range: _m_range, enumerate: _m_enumerate, zip: _m_zip,
    reversed: _m_reversed, any: _m_any, all: _m_all, map: _m_map, filter: _m_filter,
    next: _m_next, iter: _m_iter, hash: _m_hash, print: _m_print, getattr: _m_getattr,
    setattr: _m_setattr, ord: _m_ord, chr: _m_chr,
}


def _m_re_sub(I, args, kw):
    if not I.symarg(args):
        return NotImplemented
    pat, repl, s = args[0], args[1], args[2]
    if pat == r'-stubs$' and repl == '' and isinstance(s, SStr):
        # NB: `$` also matches before a trailing newline; strings with newlines are outside the model
        return models.str_removesuffix(s, '-stubs')
    raise HarnessError('re.sub(%r, ...) on a symbolic string is not modelled' % (pat,))


_BUILTIN_MODELS[_re.sub] = _m_re_sub

import os.path as _osp  # noqa: E402


def _m_path_join(I, args, kw):
    if not I.symarg(args):
        return NotImplemented
    return models.posix_join(*args)


_BUILTIN_MODELS[_osp.join] = _m_path_join


import unicodedata as _unicodedata


def _m_normalize(I, args, kw):
    form, text = args
    if not isinstance(text, SStr):
        return _unicodedata.normalize(form, text)
    if isinstance(form, Sym):
        raise HarnessError('unicodedata.normalize with a symbolic form')
    return models.str_charmap(text, lambda ch: _unicodedata.normalize(form, ch), 'unicodedata.normalize')


_BUILTIN_MODELS[_unicodedata.normalize] = _m_normalize


def register_model(f, model):
    """model(I, args, kwargs) -> value | NotImplemented"""
    _BUILTIN_MODELS[f] = model
