"""pysym - a small symbolic executor for the Python subset jedi's kernels are written in."""
import os
import sys

_deps = os.path.join(os.path.dirname(os.path.dirname(os.path.abspath(__file__))), '.deps')
if os.path.isdir(_deps) and _deps not in sys.path:
    sys.path.append(_deps)
