"""Final-query solver portfolio: z3 (in process) first, cvc5 (worker process) for what z3 leaves
open.  `unknown`, time-outs and error lines are inconclusive, never success."""
import json
import os
import select
import subprocess
import sys
import tempfile
import time

import z3

from .core import _zstr_to_py

HERE = os.path.dirname(os.path.abspath(__file__))

STATS = {'z3_queries': 0, 'z3_time': 0.0, 'cvc5_queries': 0, 'cvc5_time': 0.0,
         'cross_checked': 0, 'disagreements': 0, 'unknown': 0}


class Result:
    def __init__(self, status, model=None, solver='', secs=0.0, zmodel=None, msg=''):
        self.status, self.model, self.solver, self.secs = status, model or {}, solver, secs
        self.zmodel = zmodel
        self.msg = msg

    def __repr__(self):
        return '<Result %s by %s in %.2fs>' % (self.status, self.solver, self.secs)


_STRING_USE = {}      # ast id of a top-level assertion -> (assertion kept alive, bool); ids are stable while the term lives


def _assertion_uses_strings(a):
    key = a.get_id()
    hit = _STRING_USE.get(key)
    if hit is not None and hit[0].eq(a):
        return hit[1]
    seen = set()
    todo = [a]
    found = False
    while todo:
        e = todo.pop()
        i = e.get_id()
        if i in seen:
            continue
        seen.add(i)
        if z3.is_seq(e) or z3.is_re(e):
            found = True
            break
        todo.extend(e.children())
    if len(_STRING_USE) > 200000:
        _STRING_USE.clear()
    _STRING_USE[key] = (a, found)
    return found


def _uses_strings(assertions):
    for a in assertions:
        if _assertion_uses_strings(a):
            return True
    return False


def _model_dict(m):
    out = {}
    for d in m.decls():
        if d.arity() != 0:
            continue
        v = m[d]
        if z3.is_int_value(v):
            out[d.name()] = v.as_long()
        elif z3.is_true(v) or z3.is_false(v):
            out[d.name()] = z3.is_true(v)
        elif z3.is_string_value(v):
            out[d.name()] = _zstr_to_py(v)
    return out


def z3_check(assertions, timeout_s, seed=0):
    s = z3.Solver()
    s.set('timeout', int(timeout_s * 1000))
    s.set('random_seed', seed)
    s.add(*assertions)
    t = time.time()
    r = str(s.check())
    dt = time.time() - t
    STATS['z3_queries'] += 1
    STATS['z3_time'] += dt
    if r == 'sat':
        m = s.model()
        return Result('sat', _model_dict(m), 'z3', dt, zmodel=m)
    return Result(r, solver='z3', secs=dt, msg=s.reason_unknown() if r == 'unknown' else '')


_CVC5 = None


def cvc5_inproc(assertions, timeout_ms):
    """cvc5 (python API, in process) on the SMT-LIB2 rendering of the assertions.
    -> (status, {name: python value})   status in sat/unsat/unknown"""
    global _CVC5
    if _CVC5 is None:
        import cvc5 as _c
        _CVC5 = _c
    cvc5 = _CVC5
    s = z3.Solver()
    s.add(*assertions)
    text = s.to_smt2()
    t = time.time()
    STATS['cvc5_queries'] += 1
    try:
        slv = cvc5.Solver()
        slv.setOption('strings-exp', 'true')
        slv.setOption('produce-models', 'true')
        slv.setOption('tlimit-per', str(int(timeout_ms)))
        slv.setLogic('ALL')
        sm = cvc5.SymbolManager(slv.getTermManager()) if hasattr(slv, 'getTermManager') \
            else cvc5.SymbolManager(slv)
        p = cvc5.InputParser(slv, sm)
        p.setStringInput(cvc5.InputLanguage.SMT_LIB_2_6, text, 'q')
        status = None
        while True:
            cmd = p.nextCommand()
            if cmd.isNull():
                break
            out = cmd.invoke(slv, sm).strip()
            if out in ('sat', 'unsat', 'unknown'):
                status = out
            elif 'error' in out.lower():
                return 'unknown', {}
        model = {}
        if status == 'sat':
            for tm in sm.getDeclaredTerms():
                so = tm.getSort()
                if so.isFunction():
                    continue
                v = slv.getValue(tm)
                if so.isInteger():
                    model[str(tm)] = int(str(v).replace('(- ', '-').replace(')', ''))
                elif so.isBoolean():
                    model[str(tm)] = v.getBooleanValue()
                elif so.isString():
                    model[str(tm)] = v.getStringValue()
        return status or 'unknown', model
    except Exception:
        return 'unknown', {}
    finally:
        STATS['cvc5_time'] += time.time() - t


class Cvc5Worker:
    def __init__(self):
        self.p = None

    def start(self):
        self.p = subprocess.Popen([sys.executable, os.path.join(HERE, 'cvc5_worker.py')],
                                  stdin=subprocess.PIPE, stdout=subprocess.PIPE,
                                  stderr=subprocess.DEVNULL, text=True, bufsize=1)

    def stop(self):
        if self.p is not None:
            try:
                self.p.kill()
                self.p.wait()
            except Exception:
                pass
            self.p = None

    def check(self, assertions, timeout_s):
        s = z3.Solver()
        s.add(*assertions)
        text = s.to_smt2()
        t = time.time()
        STATS['cvc5_queries'] += 1
        with tempfile.NamedTemporaryFile('w', suffix='.smt2', delete=False, dir=_scratch()) as f:
            f.write(text)
            path = f.name
        try:
            if self.p is None or self.p.poll() is not None:
                self.start()
            self.p.stdin.write(json.dumps({'file': path, 'timeout_ms': int(timeout_s * 1000)}) + '\n')
            self.p.stdin.flush()
            ready, _, _ = select.select([self.p.stdout], [], [], timeout_s + 5)
            if not ready:
                self.stop()
                return Result('unknown', solver='cvc5', secs=time.time() - t, msg='hard timeout')
            line = self.p.stdout.readline()
            if not line:
                self.stop()
                return Result('unknown', solver='cvc5', secs=time.time() - t, msg='worker died')
            rep = json.loads(line)
        finally:
            try:
                os.unlink(path)
            except OSError:
                pass
            STATS['cvc5_time'] += time.time() - t
        st = rep['status']
        if st == 'error':
            return Result('unknown', solver='cvc5', secs=time.time() - t, msg=rep.get('msg', ''))
        return Result(st, rep.get('model'), 'cvc5', time.time() - t)


def _scratch():
    d = os.environ.get('VERIF_SCRATCH') or os.path.join(os.path.dirname(HERE), '.work')
    os.makedirs(d, exist_ok=True)
    return d


_WORKER = Cvc5Worker()


def check(assertions, z3_timeout=3.0, cvc5_timeout=30.0, cross_check=False, seed=0):
    """decide satisfiability of the conjunction; returns Result"""
    assertions = [a for a in assertions if not z3.is_true(a)]
    strings = _uses_strings(assertions)
    r = z3_check(assertions, z3_timeout if strings else max(z3_timeout, 20.0), seed)
    if r.status != 'unknown' and not (cross_check and strings):
        return r
    if not strings and r.status == 'unknown':
        # try cvc5 anyway (nonlinear / quantifier-free ints)
        pass
    c = _WORKER.check(assertions, cvc5_timeout)
    if r.status == 'unknown':
        if c.status == 'unknown':
            STATS['unknown'] += 1
            r2 = z3_check(assertions, cvc5_timeout, seed + 1)
            if r2.status != 'unknown':
                return r2
        return c
    STATS['cross_checked'] += 1
    if c.status != 'unknown' and c.status != r.status:
        STATS['disagreements'] += 1
        return Result('disagree', solver='z3=%s cvc5=%s' % (r.status, c.status))
    return r


def shutdown():
    _WORKER.stop()
