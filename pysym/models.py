"""Library models: Python string semantics on z3 strings, symbolic-key containers, builtins.

Every model here is differentially tested against the real builtin by ``pysym.selftest``.
"""
import z3

from . import core
from .core import (Sym, SInt, SBool, SStr, z, zbool, mk_bool, mk_int, mk_str, sym_not, engine,
                   HarnessError, BoundHit, as_sint)

MAX_SPLIT = 6        # default bound on the number of pieces a symbolic split may produce
MAX_STRIP = 8        # default bound on stripped characters


def is_strlike(v):
    return isinstance(v, (str, SStr))


def is_intlike(v):
    return isinstance(v, (SInt, SBool)) or (isinstance(v, int))


def slen(s):
    if isinstance(s, SStr):
        return mk_int(z3.Length(s.e))
    return len(s)


def _norm_index(i, n):
    """Python slice-bound normalisation: negative counts from the end, then clamp to [0, n]"""
    zi, zn = z(as_sint(i)), z(as_sint(n))
    adj = z3.If(zi < 0, zi + zn, zi)
    return z3.If(adj < 0, z3.IntVal(0), z3.If(adj > zn, zn, adj))


def _nonneg(v):
    """syntactic check: the (symbolic) int is certainly >= 0"""
    if isinstance(v, bool):
        return True
    if isinstance(v, int):
        return v >= 0
    if isinstance(v, SBool):
        return True
    if not isinstance(v, SInt):
        return False
    return _nonneg_term(v.e, 6)


def _nonneg_term(e, depth):
    if z3.is_int_value(e):
        return e.as_long() >= 0
    if depth <= 0:
        return False
    k = e.decl().kind()
    if k == z3.Z3_OP_SEQ_LENGTH:
        return True
    if k == z3.Z3_OP_ADD:
        return all(_nonneg_term(c, depth - 1) for c in e.children())
    if k == z3.Z3_OP_ITE:
        return _nonneg_term(e.arg(1), depth - 1) and _nonneg_term(e.arg(2), depth - 1)
    if k == z3.Z3_OP_MUL:
        return all(_nonneg_term(c, depth - 1) for c in e.children())
    return False


def str_getitem(s, i):
    zs = z(s)
    n = z3.Length(zs)
    if isinstance(i, slice):
        if i.step not in (None, 1):
            raise HarnessError('extended slices of symbolic strings are not modelled')
        # fast paths (SMT-LIB str.substr truncates at the end of the string, like Python slices)
        if i.stop is None and (i.start is None or _nonneg(i.start)):
            if i.start is None:
                return s
            return mk_str(z3.SubString(zs, z(as_sint(i.start)), n))
        if i.start is None and _nonneg(i.stop):
            return mk_str(z3.SubString(zs, z3.IntVal(0), z(as_sint(i.stop))))
        if i.start is not None and i.stop is not None and _nonneg(i.start) and _nonneg(i.stop):
            a, b = z(as_sint(i.start)), z(as_sint(i.stop))
            return mk_str(z3.SubString(zs, a, b - a))
        lo = z3.IntVal(0) if i.start is None else _norm_index(i.start, mk_int(n))
        hi = n if i.stop is None else _norm_index(i.stop, mk_int(n))
        ln = z3.If(hi > lo, hi - lo, z3.IntVal(0))
        return mk_str(z3.SubString(zs, lo, ln))
    if not is_intlike(i):
        raise TypeError('string indices must be integers')
    zi = z(as_sint(i))
    if bool(mk_bool(z3.Or(zi >= n, zi < -n))):
        raise IndexError('string index out of range')
    idx = z3.If(zi < 0, zi + n, zi)
    return mk_str(z3.SubString(zs, idx, z3.IntVal(1)))


def seq_getitem(o, i):
    """list/tuple indexed or sliced by a symbolic int: fork over the concrete spine"""
    n = len(o)
    if isinstance(i, slice):
        parts = [i.start, i.stop, i.step]
        conc = []
        for p, lo, hi in ((parts[0], -n - 1, n + 1), (parts[1], -n - 1, n + 1), (parts[2], None, None)):
            if isinstance(p, Sym):
                if lo is None:
                    raise HarnessError('symbolic slice step')
                conc.append(concretize_int(p, lo, hi))
            else:
                conc.append(p)
        return o[slice(*conc)]
    if isinstance(i, SBool):
        i = as_sint(i)
    for k in range(n):
        if bool(mk_bool(z3.Or(i.e == k, i.e == k - n))):
            return o[k]
    raise IndexError('%s index out of range' % type(o).__name__)


def concretize_int(v, lo, hi):
    """fork v into a concrete int; values below lo / above hi are clamped to lo / hi
    (only valid where Python clamps as well, i.e. slice bounds)"""
    if not isinstance(v, Sym):
        return v
    v = as_sint(v)
    if bool(mk_bool(v.e <= lo)):
        return lo
    for k in range(lo + 1, hi):
        if bool(mk_bool(v.e == k)):
            return k
    return hi


def str_startswith(s, p, *a):
    if a:
        raise HarnessError('startswith with start/end not modelled')
    if isinstance(p, tuple):
        return mk_bool(z3.Or(*[z3.PrefixOf(z(x), z(s)) for x in p])) if p else False
    if not is_strlike(p):
        raise TypeError('startswith first arg must be str or a tuple of str')
    return mk_bool(z3.PrefixOf(z(p), z(s)))


def str_endswith(s, p, *a):
    if a:
        raise HarnessError('endswith with start/end not modelled')
    if isinstance(p, tuple):
        return mk_bool(z3.Or(*[z3.SuffixOf(z(x), z(s)) for x in p])) if p else False
    if not is_strlike(p):
        raise TypeError('endswith first arg must be str or a tuple of str')
    return mk_bool(z3.SuffixOf(z(p), z(s)))


def str_find(s, sub, *a):
    if len(a) > 1:
        raise HarnessError('find with an end argument is not modelled')
    if not a or a[0] is None:
        return mk_int(z3.IndexOf(z(s), z(sub), z3.IntVal(0)))
    zs = z(s)
    start = a[0].e if isinstance(a[0], Sym) else z3.IntVal(a[0])
    n = z3.Length(zs)
    # Python clamps a negative start to max(len+start, 0); a start beyond the end finds nothing
    start = z3.If(start < 0, z3.If(n + start < 0, z3.IntVal(0), n + start), start)
    return mk_int(z3.simplify(z3.If(start > n, z3.IntVal(-1), z3.IndexOf(zs, z(sub), start))))


def str_index(s, sub, *a):
    r = str_find(s, sub, *a)
    if bool(r == -1) if isinstance(r, Sym) else r == -1:
        raise ValueError('substring not found')
    return r


def str_rfind(s, sub, *a):
    if a:
        raise HarnessError('rfind with start/end not modelled')
    return mk_int(z3.LastIndexOf(z(s), z(sub)))


def str_contains(s, sub):
    if not is_strlike(sub):
        raise TypeError("'in <string>' requires string as left operand")
    if isinstance(sub, str) and len(sub) == 1 and isinstance(s, SStr):
        parts = atoms(s.e)
        if all(_free_of(a, sub) for a in parts):
            return False
    return mk_bool(z3.Contains(z(s), z(sub)))


def atoms(e):
    """flatten a z3 string term into the list of its concatenated parts"""
    out = []
    todo = [e]
    while todo:
        x = todo.pop()
        if z3.is_app(x) and x.decl().kind() == z3.Z3_OP_SEQ_CONCAT:
            todo.extend(reversed(x.children()))
        else:
            out.append(x)
    return out


def _free_of(atom, ch):
    """is the string atom certainly free of the character ch? (literals, and input variables
    declared with `exclude`)"""
    if z3.is_string_value(atom):
        return ch not in core._zstr_to_py(atom)
    if z3.is_const(atom) and atom.decl().kind() == z3.Z3_OP_UNINTERPRETED:
        return ch in engine().char_free.get(atom.decl().name(), ())
    return False


def structural_split(s, sep):
    """split a concatenation of literals and separator-free variables at a one-character literal
    separator, syntactically (exact: no solver involved).  None when the structure is not known."""
    if not isinstance(sep, str) or len(sep) != 1 or not isinstance(s, SStr):
        return None
    parts = atoms(s.e)
    pieces, cur = [], []
    for a in parts:
        if z3.is_string_value(a):
            lit = core._zstr_to_py(a).split(sep)
            for k, seg in enumerate(lit):
                if k > 0:
                    pieces.append(cur)
                    cur = []
                if seg:
                    cur.append(z3.StringVal(seg))
        elif _free_of(a, sep):
            cur.append(a)
        else:
            return None
    pieces.append(cur)
    out = []
    for cur in pieces:
        if not cur:
            out.append('')
        elif len(cur) == 1:
            out.append(mk_str(cur[0]))
        else:
            out.append(mk_str(z3.Concat(*cur)))
    return out


def str_split(s, sep=None, maxsplit=-1, _max=None):
    """s.split(sep): pieces are fresh strings constrained by  s == sep.join(pieces)  and
    'no piece contains sep'.  The number of pieces is decided by forking, bounded."""
    if sep is None:
        raise HarnessError('split() on whitespace is not modelled for symbolic strings')
    if isinstance(maxsplit, Sym):
        raise HarnessError('symbolic maxsplit')
    if not isinstance(s, SStr) and not isinstance(sep, SStr):
        return s.split(sep, maxsplit)
    if maxsplit == -1:
        st = structural_split(s, sep)
        if st is not None:
            return st
    eng = engine()
    zs, zsep = z(s), z(sep)
    if isinstance(sep, SStr):
        if bool(mk_bool(z3.Length(zsep) == 0)):
            raise ValueError('empty separator')
    elif sep == '':
        raise ValueError('empty separator')
    bound = _max or MAX_SPLIT
    pieces = []
    rest = zs
    while True:
        if maxsplit >= 0 and len(pieces) >= maxsplit:
            pieces.append(mk_str(rest))
            return pieces
        if not bool(mk_bool(z3.Contains(rest, zsep))):
            pieces.append(mk_str(rest))
            return pieces
        if len(pieces) + 1 >= bound:
            raise BoundHit('split produced more than %d pieces' % bound)
        idx = z3.IndexOf(rest, zsep, z3.IntVal(0))
        pieces.append(mk_str(z3.SubString(rest, z3.IntVal(0), idx)))
        rest = z3.SubString(rest, idx + z3.Length(zsep), z3.Length(rest))
        rest = z3.simplify(rest)


def str_rsplit(s, sep=None, maxsplit=-1):
    if maxsplit == -1:
        return str_split(s, sep)
    if sep is None or isinstance(maxsplit, Sym):
        raise HarnessError('rsplit variant not modelled')
    zsep = z(sep)
    rest = z(s)
    tail = []
    while len(tail) < maxsplit:
        if not bool(mk_bool(z3.Contains(rest, zsep))):
            break
        idx = z3.LastIndexOf(rest, zsep)
        tail.insert(0, mk_str(z3.SubString(rest, idx + z3.Length(zsep), z3.Length(rest))))
        rest = z3.simplify(z3.SubString(rest, z3.IntVal(0), idx))
    return [mk_str(rest)] + tail


def _in_chars(c, chars):
    """z3: single-character string c is one of the characters of `chars` (concrete str)"""
    return z3.Or(*[c == core.zstrval(ch) for ch in chars]) if chars else z3.BoolVal(False)


# every character CPython's str.isspace() accepts (what strip()/split() without arguments remove)
_WS = ('\t\n\x0b\x0c\r\x1c\x1d\x1e\x1f \x85\xa0\u1680\u2000\u2001\u2002\u2003\u2004\u2005\u2006\u2007\u2008'
       '\u2009\u200a\u2028\u2029\u202f\u205f\u3000')
assert all(ch.isspace() for ch in _WS)


def str_rstrip(s, chars=None):
    if isinstance(chars, SStr):
        raise HarnessError('rstrip with symbolic chars')
    if chars is None:
        chars = _WS
    zs = z(s)
    for k in range(MAX_STRIP + 1):
        n = z3.Length(zs)
        last = z3.SubString(zs, n - 1, z3.IntVal(1))
        if not bool(mk_bool(z3.And(n > 0, _in_chars(last, chars)))):
            return mk_str(zs)
        zs = z3.simplify(z3.SubString(zs, z3.IntVal(0), n - 1))
    raise BoundHit('rstrip removed more than %d characters' % MAX_STRIP)


def str_lstrip(s, chars=None):
    if isinstance(chars, SStr):
        raise HarnessError('lstrip with symbolic chars')
    if chars is None:
        chars = _WS
    zs = z(s)
    for k in range(MAX_STRIP + 1):
        n = z3.Length(zs)
        first = z3.SubString(zs, z3.IntVal(0), z3.IntVal(1))
        if not bool(mk_bool(z3.And(n > 0, _in_chars(first, chars)))):
            return mk_str(zs)
        zs = z3.simplify(z3.SubString(zs, z3.IntVal(1), n - 1))
    raise BoundHit('lstrip removed more than %d characters' % MAX_STRIP)


def str_strip(s, chars=None):
    return str_rstrip(str_lstrip(s, chars), chars) if isinstance(s, SStr) else s.strip(chars)


def str_expandtabs(s, tabsize=8):
    """exact only for strings that cannot contain a tab (declared with exclude=...)"""
    if all(_free_of(a, '\t') for a in atoms(z(s))):
        return s
    raise HarnessError('expandtabs on a symbolic string that may contain a tab')


def str_removeprefix(s, p):
    zs, zp = z(s), z(p)
    return mk_str(z3.If(z3.PrefixOf(zp, zs), z3.SubString(zs, z3.Length(zp), z3.Length(zs)), zs))


def str_removesuffix(s, p):
    zs, zp = z(s), z(p)
    return mk_str(z3.If(z3.And(z3.SuffixOf(zp, zs), z3.Length(zp) > 0),
                        z3.SubString(zs, z3.IntVal(0), z3.Length(zs) - z3.Length(zp)), zs))


def str_replace(s, old, new, count=-1):
    if count != -1:
        raise HarnessError('replace with count not modelled')
    if isinstance(old, SStr):
        raise HarnessError('replace with symbolic pattern')
    if old == '':
        raise HarnessError('replace of the empty string not modelled')
    # all occurrences, left to right, bounded
    out = z3.StringVal('')
    rest = z(s)
    zo, zn = z(old), z(new)
    for k in range(MAX_SPLIT + 1):
        if not bool(mk_bool(z3.Contains(rest, zo))):
            return mk_str(z3.Concat(out, rest))
        idx = z3.IndexOf(rest, zo, z3.IntVal(0))
        out = z3.Concat(out, z3.SubString(rest, z3.IntVal(0), idx), zn)
        rest = z3.simplify(z3.SubString(rest, idx + z3.Length(zo), z3.Length(rest)))
    raise BoundHit('replace: more than %d occurrences' % MAX_SPLIT)


# str.lower / str.upper: uninterpreted, constrained by exactly what Python guarantees.
_LOWER = z3.Function('py_lower', z3.StringSort(), z3.StringSort())
_UPPER = z3.Function('py_upper', z3.StringSort(), z3.StringSort())


def _case_map_term(v, maxlen, alphabet, fn):
    """exact str.lower()/upper() of a variable over a finite alphabet with bounded length:
    context-free, character by character (alphabets with context-sensitive case mappings, i.e.
    Greek capital sigma, are rejected)"""
    if any(c in alphabet for c in '\u03a3'):
        raise HarnessError('alphabet contains a character with a context-sensitive case mapping')
    pieces = []
    for i in range(maxlen):
        ci = z3.SubString(v, z3.IntVal(i), z3.IntVal(1))
        t = ci
        for ch in alphabet:
            m = fn(ch)
            if m != ch:
                t = z3.If(ci == core.zstrval(ch), core.zstrval(m), t)
        pieces.append(t)
    if not pieces:
        return z3.StringVal('')
    return z3.Concat(*pieces) if len(pieces) > 1 else pieces[0]


def _case_map(s, fn, uf):
    eng = engine()
    out = []
    for a in atoms(s.e):
        if z3.is_string_value(a):
            out.append(core.zstrval(fn(core._zstr_to_py(a))))
            continue
        meta = eng.str_meta.get(a.decl().name()) if z3.is_const(a) else None
        if meta is None:
            return None
        out.append(_case_map_term(a, meta[0], meta[1], fn))
    return mk_str(z3.Concat(*out) if len(out) > 1 else out[0])


def str_isascii(s):
    return mk_bool(z3.InRe(z(s), z3.Star(z3.Range(z3.StringVal('\x00'), z3.StringVal('\x7f')))))


def str_charmap(s, fn, what):
    """exact character-by-character image of a symbolic string whose alphabet was declared (ctx.str(alphabet=...)):
    fn is applied to each character of the alphabet; only valid for context-free maps, which is checked on all
    pairs of the alphabet"""
    eng = engine()
    for a in atoms(z(s)):
        if z3.is_const(a) and not z3.is_string_value(a):
            meta = eng.str_meta.get(a.decl().name())
            if meta is None:
                raise HarnessError('%s of a symbolic string without a declared alphabet' % what)
            for x in meta[1]:
                for y in meta[1]:
                    if fn(x + y) != fn(x) + fn(y):
                        raise HarnessError('%s is not character-wise on the alphabet (%r + %r)' % (what, x, y))
    return _case_map(s, fn, None)


def str_lower(s):
    if not isinstance(s, SStr):
        return s.lower()
    exact = _case_map(s, str.lower, _LOWER)
    if exact is not None:
        return exact
    r = _LOWER(s.e)
    eng = engine()
    eng.add(_LOWER(r) == r)                                        # idempotent
    eng.add(z3.Implies(z3.Length(s.e) == 0, z3.Length(r) == 0))     # '' -> ''
    eng.add(z3.Implies(z3.Length(s.e) > 0, z3.Length(r) > 0))       # never empties a string
    return SStr(r)


def str_upper(s):
    if not isinstance(s, SStr):
        return s.upper()
    exact = _case_map(s, str.upper, _UPPER)
    if exact is not None:
        return exact
    r = _UPPER(s.e)
    eng = engine()
    eng.add(_UPPER(r) == r)
    eng.add((z3.Length(s.e) == 0) == (z3.Length(r) == 0))
    return SStr(r)


def str_join(sep, items):
    items = list(items)
    if not items:
        return ''
    for it in items:
        if not is_strlike(it):
            raise TypeError('sequence item: expected str instance, %s found' % type(it).__name__)
    if not isinstance(sep, SStr) and not any(isinstance(i, SStr) for i in items):
        return sep.join(items)
    parts = []
    for k, it in enumerate(items):
        if k:
            parts.append(z(sep))
        parts.append(z(it))
    return mk_str(z3.Concat(*parts)) if len(parts) > 1 else mk_str(parts[0])


def str_isidentifier_ascii(s):
    """ASCII identifiers only (stated in the obligations that use it)"""
    first = z3.Union(z3.Range('a', 'z'), z3.Range('A', 'Z'), z3.Re('_'))
    rest = z3.Union(first, z3.Range('0', '9'))
    return mk_bool(z3.InRe(z(s), z3.Concat(first, z3.Star(rest))))


def str_count(s, sub):
    raise HarnessError('str.count not modelled')


def str_encode(s, *a, **k):
    raise HarnessError('str.encode not modelled')


def str_format(s, *a, **k):
    return engine().opaque_str('fmt')


def str_splitlines(s, keepends=False):
    raise HarnessError('str.splitlines not modelled')


def str_rpartition(s, sep):
    if not isinstance(s, SStr):
        return s.rpartition(sep)
    pieces = structural_split(s, sep)
    if pieces is None:
        raise HarnessError('rpartition on a string whose structure is not known')
    if len(pieces) == 1:
        return ('', '', pieces[0])
    return (str_join(sep, pieces[:-1]), sep, pieces[-1])


def str_partition(s, sep):
    if not isinstance(s, SStr):
        return s.partition(sep)
    pieces = structural_split(s, sep)
    if pieces is None:
        raise HarnessError('partition on a string whose structure is not known')
    if len(pieces) == 1:
        return (pieces[0], '', '')
    return (pieces[0], sep, str_join(sep, pieces[1:]))


STR_METHODS = {
    'rpartition': str_rpartition, 'partition': str_partition,
    'startswith': str_startswith, 'endswith': str_endswith, 'find': str_find, 'index': str_index,
    'rfind': str_rfind, 'split': str_split, 'rsplit': str_rsplit, 'rstrip': str_rstrip,
    'lstrip': str_lstrip, 'strip': str_strip, 'replace': str_replace, 'lower': str_lower,
    'upper': str_upper, 'join': str_join, 'format': str_format, 'removeprefix': str_removeprefix,
    'removesuffix': str_removesuffix, 'expandtabs': str_expandtabs, 'isascii': str_isascii, 'isidentifier': str_isidentifier_ascii, 'count': str_count,
    'encode': str_encode, 'splitlines': str_splitlines,
}


# ------------------------------------------------------------------------- equality / ordering

def sym_eq(a, b):
    """Python == on possibly symbolic values; returns bool or SBool (no forking)"""
    if isinstance(a, Sym):
        return a.__eq__(b)
    if isinstance(b, Sym):
        return b.__eq__(a)
    if isinstance(a, (tuple, list)) and type(a) is type(b) and (core.deep_sym(a) or core.deep_sym(b)):
        if len(a) != len(b):
            return False
        acc = []
        for x, y in zip(a, b):
            r = sym_eq(x, y)
            if r is False:
                return False
            if r is not True:
                acc.append(zbool(r))
        return mk_bool(z3.And(*acc)) if acc else True
    r = a == b
    return r


def sym_lt(a, b, strict=True):
    """a < b (or <=) for ints, strings and tuples/lists, lexicographic, no forking"""
    if isinstance(a, (tuple, list)) and type(a) is type(b):
        # lexicographic: first differing position decides; prefix shorter is smaller
        n = min(len(a), len(b))
        if len(a) == len(b):
            res = z3.BoolVal(not strict)
        else:
            res = z3.BoolVal(len(a) < len(b))
        for x, y in reversed(list(zip(a[:n], b[:n]))):
            eq = sym_eq(x, y)
            if eq is True:
                continue
            lt = sym_lt(x, y, True)
            res = z3.Or(zbool(lt), z3.And(zbool(eq), res)) if eq is not False else zbool(lt)
        return mk_bool(res)
    if isinstance(a, Sym) or isinstance(b, Sym):
        if isinstance(a, Sym):
            r = a.__lt__(b) if strict else a.__le__(b)
        else:
            r = b.__gt__(a) if strict else b.__ge__(a)
        if r is NotImplemented:
            raise TypeError("'<' not supported between instances of %r and %r"
                            % (type(a).__name__, type(b).__name__))
        return r
    return a < b if strict else a <= b


# --------------------------------------------------------------------------------- containers

class SymDict(dict):
    """dict whose keys may be symbolic: association list, lookup by (forking) equality.
    Concrete-only use behaves exactly like dict."""
    _pysym_holder = True

    def __init__(self, *a, **k):
        dict.__init__(self)
        self._items = []          # insertion-ordered [key, value]
        if a:
            src = a[0]
            for kk, vv in (src.items() if hasattr(src, 'items') else src):
                self[kk] = vv
        for kk, vv in k.items():
            self[kk] = vv

    def _find(self, key):
        for it in self._items:
            r = sym_eq(it[0], key)
            if r is True or (r is not False and bool(r)):
                return it
        return None

    def __setitem__(self, key, value):
        it = self._find(key)
        if it is None:
            self._items.append([key, value])
        else:
            it[1] = value

    def __getitem__(self, key):
        it = self._find(key)
        if it is None:
            raise KeyError(key)
        return it[1]

    def __delitem__(self, key):
        it = self._find(key)
        if it is None:
            raise KeyError(key)
        self._items.remove(it) if False else self._items.pop(
            next(i for i, x in enumerate(self._items) if x is it))

    def __contains__(self, key):
        return self._find(key) is not None

    def get(self, key, default=None):
        it = self._find(key)
        return default if it is None else it[1]

    def setdefault(self, key, default=None):
        it = self._find(key)
        if it is None:
            self._items.append([key, default])
            return default
        return it[1]

    def pop(self, key, *default):
        it = self._find(key)
        if it is None:
            if default:
                return default[0]
            raise KeyError(key)
        self._items.pop(next(i for i, x in enumerate(self._items) if x is it))
        return it[1]

    def __len__(self):
        return len(self._items)

    def __iter__(self):
        return iter([k for k, v in self._items])

    def keys(self):
        return [k for k, v in self._items]

    def values(self):
        return [v for k, v in self._items]

    def items(self):
        return [(k, v) for k, v in self._items]

    def update(self, other=(), **k):
        for kk, vv in (other.items() if hasattr(other, 'items') else other):
            self[kk] = vv
        for kk, vv in k.items():
            self[kk] = vv

    def clear(self):
        self._items = []

    def copy(self):
        return SymDict(self.items())

    def __bool__(self):
        return bool(self._items)

    def __repr__(self):
        return 'SymDict(%r)' % (self._items,)

    def __eq__(self, o):
        raise HarnessError('SymDict equality not modelled')

    __hash__ = None


class SymSet:
    """set whose elements may be symbolic (association list)."""
    _pysym_holder = True

    def __init__(self, it=()):
        self._items = []
        for x in it:
            self.add(x)

    def _has(self, x):
        for y in self._items:
            r = sym_eq(y, x)
            if r is True or (r is not False and bool(r)):
                return True
        return False

    def add(self, x):
        if not self._has(x):
            self._items.append(x)

    def discard(self, x):
        for i, y in enumerate(self._items):
            r = sym_eq(y, x)
            if r is True or (r is not False and bool(r)):
                del self._items[i]
                return

    def remove(self, x):
        n = len(self._items)
        self.discard(x)
        if len(self._items) == n:
            raise KeyError(x)

    def update(self, it):
        for x in it:
            self.add(x)

    def __contains__(self, x):
        return self._has(x)

    def __iter__(self):
        return iter(list(self._items))

    def __len__(self):
        return len(self._items)

    def __bool__(self):
        return bool(self._items)

    def __or__(self, o):
        r = SymSet(self._items)
        r.update(o)
        return r

    def __sub__(self, o):
        return SymSet([x for x in self._items if x not in o])

    def __and__(self, o):
        return SymSet([x for x in self._items if x in o])

    def __repr__(self):
        return 'SymSet(%r)' % (self._items,)


# ----------------------------------------------------------------------------- POSIX path model

class SymPath:
    """component-list model of an absolute or relative pathlib.PurePosixPath whose components may be
    symbolic strings.  Invariant (assumed where paths are created): components are non-empty,
    contain no '/', and are not '.'.   A path never equals a str (as in CPython)."""
    _pysym_holder = True
    _pysym_path = True

    def __init__(self, parts=(), absolute=True, raw=None):
        self.parts_ = list(parts)
        self.absolute = absolute
        self.raw = raw          # string-backed path (result of Path(<symbolic str>)): text only

    # -- rendering
    def __str__(self):
        raise HarnessError('str() of a symbolic path in native code')

    def to_str(self):
        if self.raw is not None:
            return self.raw
        if not self.parts_:
            return '/' if self.absolute else '.'
        s = str_join('/', self.parts_)
        return ('/' + s) if self.absolute else s

    def __fspath__(self):
        raise HarnessError('symbolic path handed to the operating system')

    def __repr__(self):
        return 'SymPath(%r, absolute=%r)' % (self.parts_, self.absolute)

    # -- components
    @property
    def name(self):
        if self.raw is not None:
            raise HarnessError('components of a string-backed symbolic path are not modelled')
        return self.parts_[-1] if self.parts_ else ''

    @property
    def parts(self):
        return tuple((['/'] if self.absolute else []) + self.parts_)

    def _split_name(self):
        """(stem, suffix) of the last component, by a definitional split  name == stem ++ suffix
        (fresh variables constrained to pathlib's rule: the suffix starts at the last dot i of the
        name when 0 < i < len(name)-1, and is empty otherwise)"""
        sp = getattr(self, '_split', None)
        if sp is not None:
            return sp
        name = self.name
        sp = None
        if isinstance(name, SStr):
            # structural case: the name ends in a literal ".ext" (one dot, at its start)
            parts = atoms(name.e)
            last = parts[-1]
            if len(parts) > 1 and z3.is_string_value(last):
                lit = core._zstr_to_py(last)
                j = lit.rfind('.')
                head = mk_str(z3.Concat(*parts[:-1]) if len(parts) > 2 else parts[0])
                if len(lit) >= 2 and j == 0:
                    if bool(mk_bool(z3.Length(z(head)) >= 1)):
                        sp = (head, lit)
                    else:
                        sp = (name, '')
                elif j > 0 and j < len(lit) - 1:
                    sp = (head + lit[:j], lit[j:])
        if sp is not None:
            pass
        elif not isinstance(name, SStr):
            i = name.rfind('.')
            sp = (name[:i], name[i:]) if 0 < i < len(name) - 1 else (name, '')
        else:
            eng = engine()
            stem, suf = eng.new_str('_stem'), eng.new_str('_suffix')
            free = None
            for a in atoms(name.e):
                if z3.is_string_value(a):
                    continue
                f = set(eng.char_free.get(a.decl().name(), ())) if z3.is_const(a) else set()
                free = f if free is None else (free & f)
            for a in atoms(name.e):
                if z3.is_string_value(a) and free:
                    free = set(c for c in free if c not in core._zstr_to_py(a))
            if free:
                eng.char_free[stem.e.decl().name()] = set(free)
                eng.char_free[suf.e.decl().name()] = set(free)
            nm, st, su = name.e, stem.e, suf.e
            n = z3.Length(nm)
            dot = z3.StringVal('.')
            no_suffix = z3.And(
                su == z3.StringVal(''),
                z3.Or(z3.Not(z3.Contains(nm, dot)), z3.SuffixOf(dot, nm),
                      z3.And(z3.PrefixOf(dot, nm),
                             z3.Not(z3.Contains(z3.SubString(nm, z3.IntVal(1), n - 1), dot)))))
            has_suffix = z3.And(
                z3.PrefixOf(dot, su), z3.Length(su) >= 2, z3.Length(st) >= 1,
                z3.Not(z3.Contains(z3.SubString(su, z3.IntVal(1), z3.Length(su) - 1), dot)))
            eng.add(z3.And(nm == z3.Concat(st, su), z3.Or(no_suffix, has_suffix)))
            sp = (stem, suf)
        self._split = sp
        return sp

    @property
    def suffix(self):
        return self._split_name()[1]

    @property
    def stem(self):
        return self._split_name()[0]

    @property
    def parent(self):
        if not self.parts_:
            return self
        return SymPath(self.parts_[:-1], self.absolute)

    @property
    def parents(self):
        out = []
        p = self
        while p.parts_:
            p = p.parent
            out.append(p)
        return tuple(out)

    def with_name(self, name):
        if not self.parts_:
            raise ValueError('%r has an empty name' % (self,))
        bad = name == '' if not isinstance(name, SStr) else mk_bool(z3.Length(name.e) == 0)
        bad2 = sym_eq(name, '.')
        bad3 = str_contains(name, '/') if isinstance(name, SStr) else ('/' in name)
        for b in (bad, bad2, bad3):
            if b is True or (b is not False and bool(b)):
                raise ValueError('Invalid name %r' % (name,))
        return SymPath(self.parts_[:-1] + [name], self.absolute)

    def joinpath(self, *others):
        p = self
        for o in others:
            p = p / o
        return p

    def __truediv__(self, o):
        if isinstance(o, SymPath):
            if o.absolute:
                return o
            return SymPath(self.parts_ + o.parts_, self.absolute)
        if isinstance(o, SStr):
            # a single relative component (assumed by the obligations that use it)
            return SymPath(self.parts_ + [o], self.absolute)
        if isinstance(o, str):
            if o.startswith('/'):
                return SymPath([c for c in o.split('/') if c and c != '.'], True)
            return SymPath(self.parts_ + [c for c in o.split('/') if c and c != '.'], self.absolute)
        return NotImplemented

    def is_absolute(self):
        return self.absolute

    # file-system questions are answered by a hook the obligation installs (environment stub)
    fs_hook = None

    def is_file(self):
        if SymPath.fs_hook is None:
            raise HarnessError('is_file() on a symbolic path without a file-system stub')
        return SymPath.fs_hook('is_file', self)

    def is_dir(self):
        if SymPath.fs_hook is None:
            raise HarnessError('is_dir() on a symbolic path without a file-system stub')
        return SymPath.fs_hook('is_dir', self)

    def absolute(self):     # shadowed by the instance attribute; kept for documentation
        return self

    def absolute_(self):
        return self

    def relative_to(self, other):
        if not isinstance(other, SymPath):
            other = to_sympath(other)
        n = len(other.parts_)
        if self.absolute != other.absolute or n > len(self.parts_):
            raise ValueError('%r is not in the subpath of %r' % (self, other))
        for a, b in zip(self.parts_, other.parts_):
            r = sym_eq(a, b)
            if r is False or (r is not True and not bool(r)):
                raise ValueError('%r is not in the subpath of %r' % (self, other))
        return SymPath(self.parts_[n:], False)

    def is_relative_to(self, other):
        try:
            self.relative_to(other)
            return True
        except ValueError:
            return False

    def __eq__(self, o):
        if isinstance(o, SymPath):
            if self.raw is not None or o.raw is not None:
                return sym_eq(self.to_str(), o.to_str())
            if self.absolute != o.absolute or len(self.parts_) != len(o.parts_):
                return False
            return sym_eq(tuple(self.parts_), tuple(o.parts_))
        if not isinstance(o, (str, Sym)) and hasattr(o, 'parts') and hasattr(o, 'is_absolute'):
            return self.__eq__(to_sympath(o))
        return False

    def __ne__(self, o):
        return sym_not(self.__eq__(o))

    def __hash__(self):
        raise HarnessError('symbolic path hashed')

    def __lt__(self, o):
        if not isinstance(o, SymPath):
            o = to_sympath(o)
        return sym_lt(tuple(self.parts), tuple(o.parts))


def to_sympath(p):
    if isinstance(p, SymPath):
        return p
    import pathlib
    if isinstance(p, pathlib.PurePath):
        parts = list(p.parts)
        absolute = p.is_absolute()
        if absolute:
            parts = parts[1:]
        return SymPath(parts, absolute)
    raise HarnessError('cannot convert %r to a path model' % (p,))


# --------------------------------------------------------------------------- bytes (ASCII) model

class SymBytes:
    """a line of bytes backed by a symbolic ASCII string (decode/encode are the identity)"""
    _pysym_holder = True

    def __init__(self, s):
        self.s = s

    @staticmethod
    def _arg(b):
        if isinstance(b, bytes):
            return b.decode('latin-1')
        if isinstance(b, SymBytes):
            return b.s
        raise TypeError('a bytes-like object is required')

    def startswith(self, b):
        return str_startswith(self.s, self._arg(b)) if isinstance(self.s, SStr) else self.s.startswith(self._arg(b))

    def endswith(self, b):
        return str_endswith(self.s, self._arg(b)) if isinstance(self.s, SStr) else self.s.endswith(self._arg(b))

    def __contains__(self, b):
        r = str_contains(self.s, self._arg(b)) if isinstance(self.s, SStr) else (self._arg(b) in self.s)
        return bool(r)

    def __bool__(self):
        return bool(slen(self.s) > 0) if isinstance(self.s, SStr) else bool(self.s)

    def decode(self, *a, **k):
        return self.s

    def __repr__(self):
        return 'SymBytes(%r)' % (self.s,)


def posix_join(a, *p):
    """posixpath.join on (symbolic) strings; forks on the cases the real function distinguishes"""
    path = a
    for b in p:
        if not is_strlike(b):
            raise TypeError('join() argument must be str')
        if bool(str_startswith(b, '/')) if isinstance(b, SStr) else b.startswith('/'):
            path = b
        else:
            empty = (slen(path) == 0)
            ends = str_endswith(path, '/') if isinstance(path, SStr) else path.endswith('/')
            if bool(empty) or bool(ends):
                path = path + b
            else:
                path = path + '/' + b
    return path
