"""Persistent cvc5 worker: one JSON request per line on stdin, one JSON reply per line on stdout.

request: {"file": <smt2 path>, "timeout_ms": int}
reply:   {"status": "sat"|"unsat"|"unknown"|"error", "model": {name: value}, "msg": str}
"""
import json
import os
import sys

sys.path.append(os.path.join(os.path.dirname(os.path.dirname(os.path.abspath(__file__))), '.deps'))
import cvc5  # noqa: E402


def solve(path, timeout_ms):
    slv = cvc5.Solver()
    slv.setOption('strings-exp', 'true')
    slv.setOption('produce-models', 'true')
    slv.setOption('tlimit-per', str(int(timeout_ms)))
    slv.setLogic('ALL')
    sm = cvc5.SymbolManager(slv.getTermManager()) if hasattr(slv, 'getTermManager') \
        else cvc5.SymbolManager(slv)
    p = cvc5.InputParser(slv, sm)
    p.setFileInput(cvc5.InputLanguage.SMT_LIB_2_6, path)
    status = None
    while True:
        cmd = p.nextCommand()
        if cmd.isNull():
            break
        out = cmd.invoke(slv, sm).strip()
        if out in ('sat', 'unsat', 'unknown'):
            status = out
        elif out.startswith('(error') or 'error' in out.lower():
            return {'status': 'error', 'msg': out}
    model = {}
    if status == 'sat':
        for t in sm.getDeclaredTerms():
            so = t.getSort()
            v = slv.getValue(t)
            if so.isInteger():
                model[str(t)] = int(str(v).replace('(- ', '-').replace(')', '')) if True else 0
            elif so.isBoolean():
                model[str(t)] = v.getBooleanValue()
            elif so.isString():
                model[str(t)] = v.getStringValue()
    return {'status': status or 'error', 'model': model, 'msg': ''}


def main():
    for line in sys.stdin:
        line = line.strip()
        if not line:
            continue
        req = json.loads(line)
        try:
            rep = solve(req['file'], req['timeout_ms'])
        except Exception as e:      # parse errors, unsupported terms
            rep = {'status': 'error', 'model': {}, 'msg': '%s: %s' % (type(e).__name__, e)}
        sys.stdout.write(json.dumps(rep) + '\n')
        sys.stdout.flush()


if __name__ == '__main__':
    main()
