#!/bin/bash
# Offline setup: solver libraries (z3, cvc5, crosshair) into /verif/.deps from the local wheelhouse.
HERE="$(cd "$(dirname "${BASH_SOURCE[0]}")" && pwd)"
QUIET=0; [ "${1:-}" = "--quiet" ] && QUIET=1
if [ ! -f "$HERE/.deps/.ok" ]; then
  (
    flock 9
    if [ ! -f "$HERE/.deps/.ok" ]; then
      rm -rf "$HERE/.deps"
      PIP_NO_INDEX=1 /venv/bin/python -m pip install -q --no-index --find-links /opt/veriftools/wheels \
          --target "$HERE/.deps" z3-solver cvc5 crosshair-tool >/dev/null 2>&1 || exit 1
      touch "$HERE/.deps/.ok"
    fi
  ) 9>"$HERE/.deps.lock" || exit 1
fi
if [ $QUIET = 0 ]; then
  PYTHONPATH="$HERE:${VERIF_REPO:-/repo}" /venv/bin/python -m pysym.selftest || exit 1
fi
exit 0
