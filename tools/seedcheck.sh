#!/bin/bash
# usage: tools/seedcheck.sh <prop> <variant> [patchdir]   validates a seeded change and runs the property's check on it
P=$1; V=$2; SRC=${3:-/tmp/seed/out/$P/$V}
W=$(mktemp -d /tmp/sv-$P-$V-XXXX); rmdir $W
git -C /repo worktree add --detach $W HEAD -q || exit 9
trap 'git -C /repo worktree remove --force '$W' 2>/dev/null; rm -rf '$W EXIT
if ! git -C $W apply $SRC/patch.diff 2>/dev/null; then echo "RESULT $P/$V patch=NOAPPLY"; exit 0; fi
/venv/bin/python $SRC/demo.py /repo > /dev/null 2>&1; d0=$?
/venv/bin/python $SRC/demo.py $W > /dev/null 2>&1; d1=$?
/verif/tools/run_baseline.py $W > $W.base.log 2>&1; b=$?
( cd /verif && VERIF_REPO=$W VERIF_JOBS=${SEED_JOBS:-4} ./check $P --no-evidence > $W.check.log 2>&1 ); c=$?
det=$(grep -c "^VIOLATION" $W.check.log)
echo "RESULT $P/$V patch=ok demo_repo=$d0 demo_patched=$d1 baseline_rc=$b check_rc=$c violations=$det  $(grep -E '^counterexample' $W.check.log | head -1 | cut -c1-200)"
grep -E "HARNESS|INCONCL" $W.check.log | head -3 | cut -c1-300
rm -f $W.base.log $W.check.log
