#!/bin/bash
# usage: tools/seedrun.sh <patch.diff> <property> [extra check args]
# applies a seeded change to a scratch worktree of /repo HEAD (never to /repo itself), runs the property's check on it,
# prints the counterexample / verdict lines and removes the worktree.
PATCH=$1; C=$2; shift 2
W=$(mktemp -d /tmp/sv-XXXX); rmdir $W
git -C /repo worktree add --detach $W HEAD -q
git -C $W apply $PATCH || echo "NOAPPLY"
(cd /verif && VERIF_REPO=$W VERIF_JOBS=${VERIF_JOBS:-8} ./check $C --no-evidence "$@" 2>&1 | grep -E "^counterexample|^C[0-9]+ tier|HARNESS" | head -4 | cut -c1-260)
git -C /repo worktree remove --force $W
