#!/bin/bash
# usage: tools/mutcheck.sh <patch.diff | -e 'sed-expr' file> -- <check args...>
# Applies a change to a scratch copy of /repo (never to /repo itself), runs ./check against the copy, removes it.
set -u
D=$(mktemp -d /tmp/jedi-mut-XXXXXX)
trap 'rm -rf "$D"' EXIT
rsync -a --exclude .git /repo/ "$D/"
if [ "$1" = "-e" ]; then
  sed -i -e "$2" "$D/$3" || exit 9; shift 3
  (cd /repo && diff -u "$3" "$D/$3" | head -20) 2>/dev/null
else
  (cd "$D" && patch -p1 -s < "$1") || { echo "patch failed"; exit 9; }; shift 1
fi
[ "$1" = "--" ] && shift
cd /verif && VERIF_REPO="$D" ./check "$@" --no-evidence
echo "exit=$?"
