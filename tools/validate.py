#!/usr/bin/env python3
"""validate MANIFEST.json and evidence files against the schemas (run with python3-vt: has jsonschema)"""
import json, sys, glob
import jsonschema
ok = True
jsonschema.validate(json.load(open('/verif/MANIFEST.json')), json.load(open('/root/.vp/MANIFEST.schema.json')))
print('manifest valid')
sch = json.load(open('/root/.vp/EVIDENCE.schema.json'))
for f in sorted(glob.glob('/verif/evidence/*.json')):
    try:
        jsonschema.validate(json.load(open(f)), sch); print(f, 'valid')
    except Exception as e:
        ok = False; print(f, 'INVALID', str(e)[:300])
sys.exit(0 if ok else 1)
