#!/bin/bash
# usage: tools/seed3_confirm.sh <P> <A|B>   confirm a round-3 seed (demo on /repo: 0, on patched: 1, pinned baseline passes) and run the property's quick check on it
P=$1; V=$2; SRC=${SEED3_SRC:-/tmp/seed3/out}/$P/$V
W=$(mktemp -d /tmp/sv3-XXXX); rmdir $W
git -C /repo worktree add --detach $W HEAD -q
if ! git -C $W apply $SRC/patch.diff; then echo "RESULT $P/$V NOAPPLY"; git -C /repo worktree remove --force $W; exit; fi
(cd /tmp && /venv/bin/python $SRC/demo.py /repo >/dev/null 2>&1); d0=$?
(cd /tmp && /venv/bin/python $SRC/demo.py $W >/dev/null 2>&1); d1=$?
/venv/bin/python /verif/tools/run_baseline.py $W >/dev/null 2>&1; b=$?
out=$(cd /verif && VERIF_REPO=$W VERIF_JOBS=${VERIF_JOBS:-6} ./check $P --no-evidence 2>&1)
rc=$?
nv=$(echo "$out" | grep -c "^VIOLATION")
ce=$(echo "$out" | grep -E "^counterexample" | head -1 | cut -c1-200)
he=$(echo "$out" | grep -E "HARNESS" | head -1 | cut -c1-160)
echo "RESULT $P/$V demo_repo=$d0 demo_patched=$d1 baseline_rc=$b check_rc=$rc violations=$nv $ce $he"
git -C /repo worktree remove --force $W
