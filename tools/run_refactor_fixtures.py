"""replays the upstream refactoring fixtures (test/refactor/*.py) by hand: the pytest fixture `environment`
cannot be built in this sandbox, so the current interpreter environment is used"""
import sys, os
repo=sys.argv[1]; sys.path.insert(0,repo); os.chdir(repo)
import jedi
from jedi.api.exceptions import RefactoringError
from jedi.api.environment import InterpreterEnvironment
from test import refactor
import os.path
base=os.path.join(repo,'test','refactor')
env=InterpreterEnvironment()
ok=bad=0; fails=[]
for case in refactor.collect_dir_tests(base, {}):
    desired=case.get_desired_result()
    try:
        r=case.refactor(env)
        if case.type=='error':
            got='NO ERROR'
        elif case.type=='text':
            got=''.join(f.get_new_code() for f in r.get_changed_files().values())
        else:
            got=r.get_diff()
    except RefactoringError as e:
        got=str(e)+'\n' if case.type=='error' else 'RefactoringError: %s'%e
    except Exception as e:
        got='EXC %r'%e
    if got.strip()==desired.strip() or (case.type=='error' and got.strip()==desired.strip()):
        ok+=1
    else:
        bad+=1; fails.append((case.refactor_type,case.name))
print('fixtures ok=%d differ=%d'%(ok,bad)); print(sorted(fails))
