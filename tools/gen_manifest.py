#!/venv/bin/python
"""Regenerates /verif/MANIFEST.json from the table below (claimed checks) and NOT_APPLICABLE."""
import json, os, sys
HERE = os.path.dirname(os.path.dirname(os.path.abspath(__file__)))
sys.path.insert(0, HERE)
from manifest_table import CLAIMED, NOT_APPLICABLE, NOTES   # noqa: E402

TECH = ('bounded symbolic execution of the real jedi functions (AST read from /repo at run time, '
        'pysym interpreter) + z3/cvc5 SMT refutation of each assertion over all inputs within stated bounds')

sys.path.insert(0, os.environ.get('VERIF_REPO', '/repo'))
sys.path.insert(0, os.path.join(HERE, '.deps'))
import importlib   # noqa: E402


def obligation_list(pid):
    mod = importlib.import_module('obligations.' + pid.lower())
    return ' Obligations decided (id: claim): ' + '; '.join('%s: %s' % (o.id, o.title) for o in mod.OBLIGATIONS) + '.'


checks = []
for pid in sorted(CLAIMED):
    c = dict(CLAIMED[pid])
    c['text'] = c['text'] + obligation_list(pid)
    checks.append(dict(
        property_id=pid,
        quick_cmd='./check %s --tier quick' % pid,
        thorough_cmd='./check %s --tier thorough' % pid,
        evidence_file='evidence/%s.json' % pid,
        replay_cmd_template='/venv/bin/python {path}',
        engine='pysym',
        level_claimed=dict(category='model_checking', text=c['text'], design_ref=c.get('ref', 'DESIGN.md §4 ' + pid)),
        level_note=c['note'],
        technique=c.get('technique', TECH),
    ))
m = dict(
    version=1,
    setup_cmd='./setup.sh',
    hooks=dict(guard='DAVIDHALTER_JEDI_VERIF',
               enable='no hooks are needed: the checks read and interpret the unmodified sources of /repo; '
                      'the variable is exported by ./check for forward compatibility only',
               baseline_off_cmd='cd /repo && env -u DAVIDHALTER_JEDI_VERIF /venv/bin/python -m pytest -ra -q -p no:cacheprovider --timeout=900 --continue-on-collection-errors',
               source_commits=[], add_only=True),
    engines=[dict(name='pysym', path='pysym/', serves_properties=sorted(CLAIMED),
                  kind_free_text='symbolic interpreter for the Python subset of jedi kernels (re-execution DFS, '
                                 'lazy forking, z3 incremental + cvc5 portfolio, per-path native validation)')],
    checks=checks,
    not_applicable=[dict(property_id=k, reason=v) for k, v in sorted(NOT_APPLICABLE.items())],
    notes=NOTES,
)
json.dump(m, open(os.path.join(HERE, 'MANIFEST.json'), 'w'), indent=1)
print('MANIFEST.json: %d checks, %d not applicable' % (len(checks), len(m['not_applicable'])))
