#!/bin/bash
# usage: tools/run_all.sh [quick|thorough] [ids...]   runs the registered checks, prints exit code and time per property
TIER=${1:-quick}; shift
cd "$(dirname "$0")/.."; mkdir -p .work
IDS="$@"
[ -z "$IDS" ] && IDS=$(/venv/bin/python -c "import json;print(' '.join(c['property_id'] for c in json.load(open('MANIFEST.json'))['checks']))")
for p in $IDS; do
  s=$(date +%s)
  ./check $p --tier $TIER > .work/run_$p.log 2>&1; rc=$?
  e=$(date +%s)
  echo "$p rc=$rc $((e-s))s  $(grep -E "^$p tier" .work/run_$p.log | cut -c1-160)"
done
