#!/bin/bash
# usage: tools/seeds_regress.sh [parallel]   re-runs every archived seeded change (seeded/, seeded2/, seeded3/) against the
# obligation recorded as detecting it (meta.json: detected_by), each in its own scratch worktree of /repo HEAD.
# Prints one line per seed: CAUGHT / MISSED.  Nothing is applied to /repo itself.
cd "$(dirname "$0")/.."; mkdir -p .work; OUT=.work/seeds_regress.txt; : > $OUT
P=${1:-3}
for d in seeded/* seeded2/* seeded3/*; do
  ob=$(/venv/bin/python -c "import json,sys;m=json.load(open('$d/meta.json'));print(m.get('detected_by') or '')" 2>/dev/null)
  prop=$(basename $d | cut -d- -f1)
  echo "$d $prop $ob"
done | xargs -P $P -L 1 bash -c '
  d=$0; prop=$1; ob=$2
  cp=${ob%%.*}; [ -z "$ob" ] && cp=$prop
  if [ -n "$ob" ]; then r=$(VERIF_JOBS=4 /verif/tools/seedrun.sh /verif/$d/patch.diff $cp --only $ob 2>&1 | grep -cE "^counterexample"); else r=$(VERIF_JOBS=4 /verif/tools/seedrun.sh /verif/$d/patch.diff $cp 2>&1 | grep -cE "^counterexample"); fi
  if [ "$r" -gt 0 ]; then echo "CAUGHT $d by ${ob:-$cp}"; else echo "MISSED $d (${ob:-$cp})"; fi >> /verif/.work/seeds_regress.txt'
sort $OUT | awk "{print \$1}" | uniq -c
