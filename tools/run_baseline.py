#!/venv/bin/python
"""Run the pinned baseline (the stable_pass tests of /root/.vp/BASELINE.json) in a jedi checkout.

usage: run_baseline.py [repo_dir]     (default /repo)
exit 0 iff every stable_pass test passes.  Only the files that contain stable_pass tests are run.
"""
import json, os, subprocess, sys, tempfile
import xml.etree.ElementTree as ET

repo = os.path.abspath(sys.argv[1] if len(sys.argv) > 1 else '/repo')
base = json.load(open('/root/.vp/BASELINE.json'))
stable = set(base['stable_pass'])
files = set()
for t in stable:
    mod = t.split('::')[0]
    parts = mod.split('.')
    # module path: longest prefix that is a file
    for n in range(len(parts), 0, -1):
        p = os.path.join(repo, *parts[:n]) + '.py'
        if os.path.exists(p):
            files.add(os.path.relpath(p, repo)); break
        p = os.path.join(repo, *parts[:n], '__init__.py')
        if os.path.exists(p):
            files.add(os.path.relpath(p, repo)); break
with tempfile.TemporaryDirectory() as d:
    xml = os.path.join(d, 'j.xml')
    env = dict(os.environ, DAVIDHALTER_JEDI_VERIF='')
    env.pop('DAVIDHALTER_JEDI_VERIF')
    r = subprocess.run(['/venv/bin/python', '-m', 'pytest', '-q', '-p', 'no:cacheprovider', '--timeout=900',
                        '--continue-on-collection-errors', '--junitxml=' + xml] + sorted(files),
                       cwd=repo, env=env, stdout=subprocess.PIPE, stderr=subprocess.STDOUT, text=True)
    passed = set()
    for tc in ET.parse(xml).getroot().iter('testcase'):
        if not list(tc):
            passed.add('%s::%s' % (tc.get('classname'), tc.get('name')))
missing = sorted(stable - passed)
# retry once, individually (a few environment tests are load-sensitive)
still = []
for m in missing:
    mod, name = m.split('::', 1)
    parts = mod.split('.')
    f = None; cls = []
    for n in range(len(parts), 0, -1):
        q = os.path.join(repo, *parts[:n]) + '.py'
        if os.path.exists(q):
            f = os.path.relpath(q, repo); cls = parts[n:]; break
    if f is None:
        still.append(m); continue
    nodeid = '::'.join([f] + cls + [name])
    r = subprocess.run(['/venv/bin/python', '-m', 'pytest', '-q', '-p', 'no:cacheprovider', nodeid],
                       cwd=repo, stdout=subprocess.PIPE, stderr=subprocess.STDOUT, text=True)
    if r.returncode != 0:
        still.append(m)
missing = still
print('stable_pass=%d passed_now=%d missing=%d' % (len(stable), len(stable & passed), len(missing)))
for m in missing:
    print('NOT PASSING:', m)
sys.exit(1 if missing else 0)
