#!/bin/bash
# usage: tools/seed2.sh <prop> <A|B> [check-property] [extra check args]  - apply a round-2 seed to a scratch worktree and run a check on it
P=$1; V=$2; C=${3:-$1}; shift 3 2>/dev/null
W=$(mktemp -d /tmp/sv-XXXX); rmdir $W
git -C /repo worktree add --detach $W HEAD -q
git -C $W apply /verif/seeded2/$P-$V/patch.diff || echo "NOAPPLY"
(cd /verif && VERIF_REPO=$W VERIF_JOBS=8 ./check $C --no-evidence "$@" 2>&1 | grep -E "^counterexample|^C[0-9]+ tier|HARNESS" | head -3 | cut -c1-240)
git -C /repo worktree remove --force $W
