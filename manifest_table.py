"""Source of MANIFEST.json (tools/gen_manifest.py)."""

NOTES = ('All checks decide kernel-level obligations by solver-based checking of the real code; see DESIGN.md. '
         'Exit 3 (HARNESS-ERROR / INCONCLUSIVE) is reserved for solver unknown, bound hits, translator mismatches.')

_PENDING = 'check not built yet in this round (see DESIGN.md §4 for the planned obligations)'

CLAIMED = {
    'C01': dict(
        text='Bounded symbolic model checking of the position contract shared by every positional Script query: '
             'validate_line_column.wrapper is executed symbolically over K<=3 (thorough 5) code lines of unbounded '
             'content (length<=64), unbounded integer or None line/column; the solver shows ValueError is raised '
             'exactly for positions outside the text, nothing else escapes, and the query receives the normalised '
             'position. Every path is re-run natively on a model.'
             ' Added: P4 obligations over corpora of BROKEN snippets with a symbolic in-range cursor: helpers.get_on_completion_name, get_signature_details (+CallDetails accessors), completion._extract_string_while_in_string, Script.get_context and the grammar-stack front end of Completion._complete_python never raise.',
        note='Decides only the position-contract clause (and, as added, the shallow API layer); parso tokenizer/parser '
             'and the inference engine on arbitrary text are NOT decided. Lines are assumed to have the shape '
             'parso.split_lines produces.'),
    'C11': dict(
        text='Bounded symbolic model checking of CallDetails.calculate_index against Python\'s argument binding rule '
             '(admissible-set oracle): all valid parameter-kind sequences up to P parameters with symbolic names '
             '(prefix collisions included), all call prefixes up to A arguments of every argument shape.'
             ' Added: _SignatureMixin.to_string re-parses to the same kinds (symbolic kinds), bound signatures drop exactly the first parameter, and bracket_start equals the innermost call parenthesis for every cursor of a call corpus (reference from CPython tokenize).',
        note='Decides the index clause only (plus rendering obligations as added). Equality with inspect.signature '
             'through wrappers and docstrings need inference and are not decided. Argument triples are assumed to be '
             'what helpers._iter_arguments yields.'),
    'C15': dict(
        text='Each give-up mechanism is checked as one inductive step from an arbitrary symbolic state satisfying the '
             'representation invariant: execution budgets (depth, total, per-function, recursive), balanced push/pop '
             'of the recursion decorator on normal and exceptional exit.'
             ' Added: fresh detectors share no state, the per-node inference cap (_limit_value_infers) as an inductive step over an arbitrary counter, and the MRO listing over all inheritance DAGs of <=5 classes (terminates, no duplicates, every ancestor).',
        note='Wall-clock behaviour of whole queries and polynomial scaling are not decided; limits are read from '
             'jedi.inference.recursion at run time; funcdefs are abstract identities.'),
    'C02': dict(
        text='Bounded symbolic model checking of the tuple-assignment projection (TreeNameDefinition.assignment_indexes + '
             'syntax_tree.check_tuple_assignments over stand-in target trees, nesting and stars, right-hand length '
             'symbolic) against Python\'s unpacking semantics.'
             " Added: param.get_executed_param_names_and_issues against Python's argument binding for every valid parameter list / call shape within the bounds, and the owner class of the per-MRO ClassFilters in ClassMixin.get_filters.",
        note='Only this kernel of the evaluator is decided; the abstract interpreter as a whole (calls, classes, '
             'instances, generators, narrowing ...) is NOT. One recorded known finding (targets after a star).'),
    'C03': dict(
        text='Bounded symbolic model checking of the two selection kernels of name resolution: ParserTreeFilter._filter/'
             '_check_flows (latest reachable definition of the scope before the use wins; symbolic positions, scope bits '
             'and reachability verdicts) and context.get_global_filters (scope order and where the position limit stops).'
             ' Added: FunctionValue.from_context skips every enclosing class body (class-body rule) over symbolic context chains.',
        note='Thin: goto dispatch, class-body skipping, global/nonlocal merging and the flow analysis itself are NOT '
             'decided (reachability and parent-scope lookup are symbolic stubs).'),
    'C04': dict(
        text='Bounded symbolic model checking of the completion algebra: helpers.match/_fuzzy_match against prefix / '
             'subsequence references; completion.filter_names + classes.Completion (complete, name_with_symbols, '
             'prefix length, de-duplication, completeness of the filter) over symbolic fragment and candidate names; the '
             'sort key of Completion.complete against the documented order. str.lower() is modelled exactly over an '
             'alphabet that contains U+0130.',
        note='Attribute completeness against live objects is NOT decided (needs the evaluator). Identifiers are over '
             'the alphabet {a,A,b,_,U+0130}, |fragment|<=2(3), |name|<=3(4), <=2(3) candidates; candidate names are '
             'stubs; add_bracket_after_function=False.'),
    'C05': dict(
        text='Bounded symbolic model checking of rename(): the node->text map and parso\'s RefactoringNormalizer are '
             'executed over a flat token list with symbolic prefixes/values and a symbolic subset of reported tokens: '
             'exactly those tokens are rewritten, every other byte kept, renaming back restores the text; module/package '
             'renames announce exactly dir/new+suffix resp. dir.parent/new.'
             ' Added: the real merge loop of references.find_references over symbolic goto closures (2 definitions, 3 usages, symbolic start and scan order) yields the connected component; _find_global_variables collects the bindings of every function declaring the name global.',
        note='That get_references reports the right set (goto closure, partition) and that the renamed program behaves '
             'the same are NOT decided.'),
    'C06': dict(
        text='Decision kernels of inline and extract over symbolic node types / positions: inline parenthesises the '
             'right-hand side whenever Python\'s binding strengths require it (node types symbolic, reference table '
             'from the grammar), refuses everything but a plain single assignment with RefactoringError, and '
             'extract_function returns exactly the selection variables read afterwards.',
        note='Decided over a corpus of four side-effect-free programs: extract_variable / extract_function for EVERY '
             'selection (compile + run both programs; four recorded known-finding regions excluded). The '
             'extract->inline round trip and programs with side effects are NOT decided; the other kernels use stand-in nodes.'),
    'C07': dict(
        text='Bounded symbolic model checking of Refactoring.get_changed_files (which files move under a rename: '
             'exactly the renamed path and the paths below it, for every way a path text can relate to the renamed '
             'path) and of ChangedFile/Refactoring.apply with recording open()/rename stubs (nothing touched before '
             'apply, each file written once with newline="" and exactly get_new_code(), renames after writes, '
             'path=None => RefactoringError).'
             ' Added: extract._replace keeps the complete prefix of the replaced expression and of the statement (byte preservation of the extract refactorings).',
        note='difflib, parso\'s RefactoringNormalizer and the real file system are trusted/stubbed; the diff text '
             'itself and byte preservation by the normalizer are not decided in this round.'),
    'C08': dict(
        text='Derived caches as inductive steps from arbitrary cache states: the definition-name cache and the '
             'parent-scope cache are keyed on the tree-version object and never serve another version; the signature '
             'time cache key always contains an identity-compared match object (so two buffers never share a key) over '
             'symbolic code lines and positions; the time cache under a symbolic clock.',
        note='parso replacing the cache entry on every re-parse is assumed (the property itself assumes a faithful '
             'incremental parse); whole-engine edit histories are not explored; call_signatures_validity is the integer 3.'),
    'C10': dict(
        text='Bounded symbolic model checking of (a) the relative-import level rewriting in Importer.__init__ against '
             'importlib\'s resolve_name (reference cross-checked natively against importlib.util.resolve_name) and (b) '
             'sys_path.transform_path_to_dotted against a path-prefix reference: for every way a sys.path entry text can '
             'relate to the module path (not a prefix / prefix at a component boundary / prefix ending inside a '
             'component) the dotted name is the components below the deepest parent entry.'
             ' Added: helper-side _find_module_py33 never falls back to an interpreter-wide lookup for a sub-module search (finders stubbed, answers symbolic).',
        note='Module discovery is delegated to the target interpreter\'s importlib and is not decided; POSIX paths; '
             'components are unbounded strings without "/", newline, NUL; <=2 sys.path entries, depth<=2(4).'),
    'C12': dict(
        text='Bounded symbolic model checking of the safe-path filter (_load_builtin_module hands only entries of the '
             'environment\'s own sys.path to the only importing function, order kept) over symbolic path strings, and of '
             'the sys.path swap/restore in compiled.access.load_module and subprocess.functions.get_module_info on '
             'every outcome of the import / module search.',
        note='The negative "no route to __import__ anywhere in the engine or helper" is NOT decided; only these kernels.'),
    'C13': dict(
        text='Decision-table model checking of CompiledValueFilter._get (all environment answers symbolic booleans) and '
             'DirectObjectAccess.is_allowed_getattr (getattr_static outcome stubbed): in safe mode a descriptor hit never '
             'becomes a getattr-backed name and no dynamic attribute access happens.'
             ' Added: getattr_static precedence (data descriptors vs instance dict) and py__simple_getitem__ (exact builtin container types) as decision tables over descriptor / container kinds.',
        note='Thin: whether getattr_static agrees with CPython attribute lookup on live objects, and the absence of '
             'other routes to user code (__getitem__, __iter__ ...), are NOT decided.'),
    'C14': dict(
        text='The request/reply protocol under a symbolic fault schedule (write: ok/BrokenPipe; reply: well-formed, '
             'error reply, EOFError, UnpicklingError; stderr read may fail): only InternalError escapes, crash flag <=> '
             'helper unusable, a dead helper is never written to again; Environment replaces a crashed helper; '
             'deletion-queue bookkeeping as an inductive step over arbitrary queue contents.'
             ' Added: _cleanup_process under symbolic OSError outcomes of kill/wait/close.',
        note='Real process death, zombies, file descriptors and hangs are NOT modelled (stubs for pickle and the process).'),
    'C16': dict(
        text='Sort key of sorted_definitions vs Name.__eq__ over symbolic positions, paths and spellings (unequal results '
             'are ordered identically whatever the input order, no None reaches a comparison); the temporary switches '
             '(flow analysis in find_references, predefine_names, monkeypatch) are restored on normal and exceptional exit.',
        note='Order effects inside inference (identity-hashed value sets, hash seeds) are NOT decided.'),
    'C17': dict(
        text='Projection kernels: BaseName.line/column == start_pos; get_line_code is exactly the window of code lines '
             'around the definition for unbounded before/after over symbolic lines; get_module_names partitions tokens '
             'into definitions/references.'
             ' Added: Name.is_definition over all identifier cursors of a corpus against the binding tokens computed from CPython ast.',
        note='Decided on corpora (reference from CPython ast/tokenize) for definitions, is_definition and ranges; Names produced by '
             'inference across files (imports, stubs) are NOT decided.'),
    'C18': dict(
        text='get_context over ALL cursor positions of a corpus of valid files: the real Script.get_context and '
             'parso get_leaf_for_position are interpreted with unconstrained symbolic (line, column); the solver '
             'partitions the infinite position space into the regions the code distinguishes and each region on a code '
             'token is compared with the innermost def/class body computed from CPython ast; full_name assembly over '
             'symbolic qualified names.',
        note='__qualname__ by execution is NOT decided; domain = positions inside single-line code tokens of a 5-file corpus '
             '(3 files quick) and every definition of a scope corpus; header positions are a recorded known finding.'),
    'C19': dict(
        text='The real project walk (recurse_find_python_folders_and_files, gitignored_paths, expand_relative_ignore_'
             'paths) is executed over a stub directory tree with symbolic folder/file/entry names: a folder is pruned / a '
             'file skipped iff a rule of a .gitignore above it names it (path-component exact) or it is a built-in '
             'ignored folder; Project._search_func hands every python file to the identifier scan.',
        note='os.walk, module loading and the per-module search are stubs; the regular expression engine itself and '
             'completeness of get_module_names on real trees are NOT decided (the pre-filter contract - decoded text, '
             'word-bounded text pattern - and the file limits are).'),
    'C20': dict(
        text='save()/load() round trip of every constructor setting with a JSON model (identity on JSON values, '
             'TypeError otherwise) over symbolic strings / Path values; composition of the effective sys.path '
             '(_get_sys_path) against the documented order with symbolic entries, script location and __init__.py '
             'presence per ancestor.',
        note='get_default_project discovery on a real disk and buildout paths are not decided; json/open/mkdir are stubs.'),
}

NOT_APPLICABLE = {
    'C09': 'Freshness after on-disk changes is decided by parso\'s mtime-validated cache, CPython\'s FileFinder cache '
           'and file-system timestamp granularity; jedi itself contributes no arithmetic/string/state-machine logic '
           'that can be encoded - a stub-everything model would verify the stub (DESIGN.md §5).',
}
