"""Source of MANIFEST.json (tools/gen_manifest.py)."""

NOTES = ('All checks decide kernel-level obligations by solver-based checking of the real code; see DESIGN.md. '
         'Exit 3 (HARNESS-ERROR / INCONCLUSIVE) is reserved for solver unknown, bound hits, translator mismatches.')

_PENDING = 'check not built yet in this round (see DESIGN.md §4 for the planned obligations)'

CLAIMED = {
    'C01': dict(
        text='Bounded symbolic model checking of the position contract shared by every positional Script query: '
             'validate_line_column.wrapper is executed symbolically over K<=3 (thorough 5) code lines of unbounded '
             'content (length<=64), unbounded integer or None line/column; the solver shows ValueError is raised '
             'exactly for positions outside the text, nothing else escapes, and the query receives the normalised '
             'position. Every path is re-run natively on a model.',
        note='Decides only the position-contract clause (and, as added, the shallow API layer); parso tokenizer/parser '
             'and the inference engine on arbitrary text are NOT decided. Lines are assumed to have the shape '
             'parso.split_lines produces.'),
    'C11': dict(
        text='Bounded symbolic model checking of CallDetails.calculate_index against Python\'s argument binding rule '
             '(admissible-set oracle): all valid parameter-kind sequences up to P parameters with symbolic names '
             '(prefix collisions included), all call prefixes up to A arguments of every argument shape.',
        note='Decides the index clause only (plus rendering obligations as added). Equality with inspect.signature '
             'through wrappers and docstrings need inference and are not decided. Argument triples are assumed to be '
             'what helpers._iter_arguments yields.'),
    'C15': dict(
        text='Each give-up mechanism is checked as one inductive step from an arbitrary symbolic state satisfying the '
             'representation invariant: execution budgets (depth, total, per-function, recursive), balanced push/pop '
             'of the recursion decorator on normal and exceptional exit.',
        note='Wall-clock behaviour of whole queries and polynomial scaling are not decided; limits are read from '
             'jedi.inference.recursion at run time; funcdefs are abstract identities.'),
}

NOT_APPLICABLE = {
    'C09': 'Freshness after on-disk changes is decided by parso\'s mtime-validated cache, CPython\'s FileFinder cache '
           'and file-system timestamp granularity; jedi itself contributes no arithmetic/string/state-machine logic '
           'that can be encoded - a stub-everything model would verify the stub (DESIGN.md §5).',
}
for _p in ('C02', 'C03', 'C04', 'C05', 'C06', 'C07', 'C08', 'C10', 'C12', 'C13', 'C14', 'C16', 'C17', 'C18', 'C19', 'C20'):
    NOT_APPLICABLE[_p] = _PENDING
