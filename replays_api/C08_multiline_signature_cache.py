import sys; sys.path.insert(0, sys.argv[1])
import jedi
p='/tmp/c08/buf.py'
a = "def connect(host, port):\n    pass\n\nconnect(\n    1, "
b = "def connect(url):\n    pass\n\nconnect(\n    1, "
s1 = jedi.Script(a, path=p).get_signatures(5, 7)
s2 = jedi.Script(b, path=p).get_signatures(5, 7)
print([x.to_string() for x in s1], [x.to_string() for x in s2])
sys.exit(1 if s2 and s2[0].to_string() != 'connect(url)' else 0)
