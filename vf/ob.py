"""Obligation framework: a scenario is a plain Python function ``scenario(ctx, cfg)``.

* symbolic mode: the scenario (and every real jedi function it calls with symbolic arguments) is
  interpreted by pysym; ``ctx.check(cond)`` asks the solver for a model of  pc AND NOT cond.
* native mode: the same scenario runs as ordinary Python on the concrete values of a model; used
  (a) to validate every explored path against the real implementation (translator check) and
  (b) to replay counterexamples against the real code before they are reported.
"""
import hashlib
import json
import os
import time
import traceback

import z3

from pysym import core, models, solve
from pysym.core import Sym, SInt, SBool, SStr, z, zbool, mk_bool, mk_int, mk_str, HarnessError
from pysym.interp import Interp


class Out:
    """outcome of a call: a value or an exception"""
    _pysym_holder = True

    def __init__(self, value=None, exc=None):
        self.value = value
        self.exc = exc

    @property
    def ok(self):
        return self.exc is None

    @property
    def exc_name(self):
        return None if self.exc is None else type(self.exc).__name__

    def raised(self, cls):
        return self.exc is not None and isinstance(self.exc, cls)

    def __repr__(self):
        return 'Out(exc=%s)' % self.exc_name if self.exc is not None else 'Out(%r)' % (self.value,)


class Obj:
    """attribute bag used for stubs; counts as holding symbolic values"""
    _pysym_holder = True

    def __init__(self, **kw):
        self.__dict__.update(kw)

    def __repr__(self):
        return 'Obj(%s)' % ', '.join('%s=%r' % kv for kv in sorted(self.__dict__.items())
                                     if not kv[0].startswith('_'))


class ModelEval:
    """evaluates z3 terms under a model (z3 model object, or a name->value dict from cvc5)"""

    def __init__(self, zmodel=None, values=None, zvalues=None):
        self.zmodel = zmodel
        self.values = values or {}
        self.zvalues = zvalues

    def term(self, e):
        if self.zmodel is not None:
            return self.zmodel.eval(e, model_completion=True)
        subs = []
        for c in _consts(e):
            n = c.decl().name()
            if self.zvalues is not None:
                zv = self.zvalues.get(n)
                subs.append((c, zv if zv is not None else core._default_value(c)))
                continue
            v = self.values.get(n)
            if c.sort() == z3.IntSort():
                subs.append((c, z3.IntVal(int(v or 0))))
            elif c.sort() == z3.BoolSort():
                subs.append((c, z3.BoolVal(bool(v))))
            elif c.sort() == z3.StringSort():
                subs.append((c, core.zstrval(v or '')))
        return z3.simplify(z3.substitute(e, *subs)) if subs else z3.simplify(e)

    def py(self, e):
        v = self.term(e)
        if z3.is_int_value(v):
            return v.as_long()
        if z3.is_true(v):
            return True
        if z3.is_false(v):
            return False
        if z3.is_string_value(v):
            return core._zstr_to_py(v)
        # the simplifier could not reduce it to a value: let a solver evaluate the closed term
        sol = z3.Solver()
        sol.set('timeout', 5000)
        x = z3.Const('__eval', v.sort())
        sol.add(x == v)
        if str(sol.check()) == 'sat':
            w = sol.model().eval(x, model_completion=True)
            if z3.is_int_value(w):
                return w.as_long()
            if z3.is_true(w):
                return True
            if z3.is_false(w):
                return False
            if z3.is_string_value(w):
                return core._zstr_to_py(w)
        raise HarnessError('cannot evaluate %s under the model (got %s)' % (str(e)[:200], str(v)[:200]))


def _consts(e):
    seen, out, todo = set(), [], [e]
    while todo:
        x = todo.pop()
        if x.get_id() in seen:
            continue
        seen.add(x.get_id())
        if z3.is_const(x) and x.decl().kind() == z3.Z3_OP_UNINTERPRETED:
            out.append(x)
        todo.extend(x.children())
    return out


def concretize(v, me, depth=0):
    """replace every symbolic value inside v by its value under the model"""
    if isinstance(v, Sym):
        return me.py(v.e)
    if depth > 6:
        return v
    if isinstance(v, tuple):
        return tuple(concretize(x, me, depth + 1) for x in v)
    if isinstance(v, list):
        return [concretize(x, me, depth + 1) for x in v]
    if isinstance(v, models.SymDict):
        return {concretize(k, me, depth + 1): concretize(x, me, depth + 1) for k, x in v.items()}
    if isinstance(v, models.SymSet):
        return sorted((concretize(x, me, depth + 1) for x in v), key=repr)
    if isinstance(v, models.SymPath):
        return ('path', concretize(v.to_str(), me, depth + 1))
    if isinstance(v, dict):
        return {concretize(k, me, depth + 1): concretize(x, me, depth + 1) for k, x in v.items()}
    if isinstance(v, Out):
        return ('exc', type(v.exc).__name__) if v.exc is not None else \
            ('ok', concretize(v.value, me, depth + 1))
    if isinstance(v, Obj):
        o = Obj()
        for k, x in v.__dict__.items():
            o.__dict__[k] = concretize(x, me, depth + 1)
        return o
    return v


def canon(v, depth=0):
    """comparable, JSON-able projection of an observed value"""
    if v is None or isinstance(v, (bool, int, str)):
        return v
    if depth > 6:
        return '<deep>'
    if isinstance(v, (tuple, list)):
        return [canon(x, depth + 1) for x in v]
    if isinstance(v, (set, frozenset, models.SymSet)):
        return sorted((canon(x, depth + 1) for x in v), key=repr)
    if isinstance(v, (dict, models.SymDict)):
        return sorted(([canon(k, depth + 1), canon(x, depth + 1)] for k, x in v.items()), key=repr)
    if isinstance(v, Out):
        return ['exc', type(v.exc).__name__] if v.exc is not None else ['ok', canon(v.value, depth + 1)]
    if isinstance(v, BaseException):
        return ['exception', type(v).__name__]
    if isinstance(v, Obj):
        return ['Obj', canon({k: x for k, x in v.__dict__.items() if not k.startswith('_')}, depth + 1)]
    if isinstance(v, type):
        return '<class %s>' % v.__name__
    if callable(v) and not isinstance(v, Obj):
        return '<callable>'
    if isinstance(v, core.Opaque):
        return '<opaque %s>' % v.tag
    if type(v).__name__ == 'Match' and type(v).__module__ == 're':
        return '<opaque match>'
    if isinstance(v, models.SymPath):
        return ['path', canon(v.to_str(), depth + 1)]
    import pathlib
    if isinstance(v, pathlib.PurePath):
        return ['path', str(v)]
    tag = getattr(v, '__dict__', {}).get('_tag') if isinstance(getattr(v, '__dict__', None), dict) else None
    if tag is not None:
        return '<%s %s>' % (type(v).__name__, tag)
    return '<%s>' % type(v).__name__


def _char_class_excluding(chars):
    cs = sorted(set(ord(c) for c in chars))
    rs = []
    lo = 0
    for c in cs:
        if c > lo:
            rs.append(z3.Range(chr(lo), chr(c - 1)))
        lo = c + 1
    # top of the solvers' character domain (SMT-LIB: 0x2FFFF), written so that z3 and cvc5 read it alike
    rs.append(z3.Range(z3.StringVal(chr(lo)), z3.StringVal('\U0002FFFF')))
    return z3.Union(*rs) if len(rs) > 1 else rs[0]


class CheckFailed(Exception):
    pass


_MISSING = object()


class Ctx:
    """the scenario's window to the engine; same interface in symbolic and native mode"""
    _pysym_holder = True

    def __init__(self, mode, interp=None, eng=None, me=None, runner=None):
        self.mode = mode
        self.I = interp
        self.eng = eng
        self.me = me
        self.runner = runner
        self.obs = []               # observations: ('call', canon) / ('check', label, bool) / ('obs', ..)
        self.inputs = []            # [(name, symbolic or concrete value)]
        self.failed = []            # native mode: labels of failed checks
        self._counter = {}
        self.checks = 0
        self._patched = []

    symbolic = property(lambda self: self.mode == 'sym')

    # ---- inputs
    def _name(self, base):
        n = self._counter.get(base, 0)
        self._counter[base] = n + 1
        return base if n == 0 else '%s#%d' % (base, n)

    def int(self, name, lo=None, hi=None):
        if self.mode == 'sym':
            v = self.eng.new_int(name)
            self._name(name)
            if lo is not None:
                self.eng.add(v.e >= lo)
            if hi is not None:
                self.eng.add(v.e <= hi)
        else:
            v = self.me.py(z3.Int(self._name(name)))
        self.inputs.append((name, v))
        return v

    def bool(self, name):
        if self.mode == 'sym':
            v = self.eng.new_bool(name)
            self._name(name)
        else:
            v = self.me.py(z3.Bool(self._name(name)))
        self.inputs.append((name, v))
        return v

    def str(self, name, maxlen=None, alphabet=None, exclude=None):
        """a string input; alphabet: only these characters; exclude: none of these characters"""
        if self.mode == 'sym':
            v = self.eng.new_str(name, maxlen)
            self._name(name)
            if exclude:
                self.eng.add(z3.InRe(v.e, z3.Star(_char_class_excluding(exclude))))
                self.eng.char_free[v.e.decl().name()] = set(exclude)
            if alphabet is not None and maxlen is not None:
                self.eng.str_meta[v.e.decl().name()] = (maxlen, alphabet)
            if alphabet is not None:
                self.eng.add(z3.InRe(v.e, z3.Star(z3.Union(*[z3.Re(c) for c in alphabet])
                                                   if len(alphabet) > 1 else z3.Re(alphabet))))
        else:
            v = self.me.py(z3.String(self._name(name)))
        self.inputs.append((name, v))
        return v

    def path(self, parts, absolute=True):
        """a POSIX path with the given components (symbolic: component-list model, native: Path)"""
        if self.mode == 'sym':
            return models.SymPath(parts, absolute)
        import pathlib
        return pathlib.Path(('/' if absolute else '') + '/'.join(parts))

    def pathstr(self, p):
        """str(path) in both modes"""
        return p.to_str() if isinstance(p, models.SymPath) else str(p)

    def component(self, name, maxlen=6, alphabet=None):
        """a path component: non-empty, no '/', no NUL/newline, not '.' or '..'"""
        c = self.str(name, maxlen=maxlen, alphabet=alphabet, exclude=None if alphabet else '/\n\0')
        self.assume(self.And(self.len(c) > 0, c != '.', c != '..'))
        return c

    def choice(self, name, n):
        """an int in range(n), concrete in both modes (forks in symbolic mode)"""
        if self.mode == 'sym':
            nm = self._name(name)
            v = self.eng.new_int(name)
            self.eng.add(z3.And(v.e >= 0, v.e < n))
            r = n - 1
            for k in range(n - 1):
                if self.eng.branch(v.e == k):
                    r = k
                    break
        else:
            r = self.me.py(z3.Int(self._name(name)))
        self.inputs.append((name, r))
        return r

    def flag(self, name):
        return self.choice(name, 2) == 1

    def oneof(self, name, options):
        return options[self.choice(name, len(options))]

    # ---- constraints
    def assume(self, cond):
        if self.mode == 'sym':
            self.eng.assume(cond)
        else:
            if not cond:
                raise HarnessError('assumption does not hold in the native run (model/encoding mismatch)')

    # ---- non-forking logic helpers (work on concrete and symbolic values)
    def And(self, *cs):
        if any(c is False for c in cs):
            return False
        if all(isinstance(c, bool) for c in cs):
            return all(cs)
        return mk_bool(z3.And(*[zbool(c) for c in cs]))

    def Or(self, *cs):
        if any(c is True for c in cs):
            return True
        if all(isinstance(c, bool) for c in cs):
            return any(cs)
        return mk_bool(z3.Or(*[zbool(c) for c in cs]))

    def Not(self, c):
        return core.sym_not(c)

    def implies(self, a, b):
        return self.Or(self.Not(a), b)

    def iff(self, a, b):
        if isinstance(a, bool) and isinstance(b, bool):
            return a == b
        return mk_bool(zbool(a) == zbool(b))

    def ite(self, c, a, b):
        if isinstance(c, bool):
            return a if c else b
        if not isinstance(c, Sym):
            return a if c else b
        if isinstance(a, (SStr, str)) and isinstance(b, (SStr, str)):
            return mk_str(z3.If(zbool(c), z(a), z(b)))
        if isinstance(a, (SBool, bool)) and isinstance(b, (SBool, bool)):
            return mk_bool(z3.If(zbool(c), z(a), z(b)))
        return mk_int(z3.If(zbool(c), z(core.as_sint(a)), z(core.as_sint(b))))

    def eq(self, a, b):
        return models.sym_eq(a, b)

    def len(self, s):
        return models.slen(s)

    # ---- running code under test
    def call(self, f, *args, **kwargs):
        """call f, capturing any Exception as an outcome"""
        try:
            if self.mode == 'sym':
                v = self.I.call(f, list(args), kwargs)
            else:
                v = f(*args, **kwargs)
            out = Out(value=v)
        except Exception as e:
            out = Out(exc=e)
        self.obs.append(('call', out))
        return out

    def run(self, f, *args, **kwargs):
        if self.mode == 'sym':
            return self.I.call(f, list(args), kwargs)
        return f(*args, **kwargs)

    def patch(self, owner, name, repl):
        """replace owner.name by repl for this scenario run: as an interpreter stub in symbolic mode
        (the attribute itself is left alone), by setattr (restored by the runner) in native mode"""
        orig = getattr(owner, name, _MISSING)      # _MISSING: a module global shadowing a builtin is created
        if self.mode == 'sym' and orig is not _MISSING:
            try:
                self.I.stubs[orig] = repl
            except TypeError:
                pass
        # also patch for real, so that code reached natively (concrete arguments) sees the stub too
        self._patched.append((owner, name, orig))
        setattr(owner, name, repl)

    def cleanup_one(self, owner, name):
        """undo the latest patch of owner.name now (the rest of the scenario sees the original)"""
        for i in range(len(self._patched) - 1, -1, -1):
            o, n, orig = self._patched[i]
            if o is owner and n == name:
                cur = getattr(owner, name)
                if orig is _MISSING:
                    delattr(owner, name)
                else:
                    setattr(owner, name, orig)
                    if self.mode == 'sym':
                        self.I.stubs.pop(orig, None)
                del self._patched[i]
                return cur

    def force(self, *funcs):
        """always interpret these functions (they read symbolic data from stubs, not from arguments)"""
        if self.mode == 'sym':
            for f in funcs:
                f = getattr(f, '__func__', f)
                if hasattr(f, '__code__'):      # closures created while interpreting are interpreted anyway
                    self.I.force.add(f.__code__)

    def cleanup(self):
        for owner, name, orig in reversed(getattr(self, '_patched', [])):
            if orig is _MISSING:
                delattr(owner, name)
            else:
                setattr(owner, name, orig)
        self._patched = []

    def observe(self, v, label=''):
        self.obs.append(('obs', label, v))
        return v

    # ---- the property
    def check(self, cond, label='post', known=None):
        self.checks += 1
        if self.mode == 'sym':
            self.obs.append(('check', label, cond))
            self.runner.on_check(self, cond, label, known or {})
        else:
            self.obs.append(('check', label, bool(cond)))
            if not cond:
                self.failed.append(label)

    def unreachable(self, label='unreachable'):
        self.check(False, label)


def _noop(*a, **k):
    return None


class Obligation:
    """base class; subclasses define id, title, scenario(), configs()"""
    id = None
    title = ''
    pattern = ''
    interpret_modules = ('jedi', 'parso', 'obligations')
    sym_containers = False
    loop_bound = 64
    max_paths = 20000
    assumptions = ()
    bounds_note = ''
    z3_timeout = 3.0
    cvc5_timeout = 40.0

    def configs(self, tier):
        return [{}]

    def scenario(self, ctx, cfg):
        raise NotImplementedError

    def make_interp(self):
        I = Interp(self.interpret_modules, sym_containers=self.sym_containers,
                   loop_bound=self.loop_bound)
        I.nondet_sets = getattr(self, 'nondet_sets', False)
        self.default_stubs(I)
        return I

    def setup_interp(self, I, cfg):
        """register stubs / forced functions"""

    def default_stubs(self, I):
        from jedi import debug
        for f in (debug.dbg, debug.warning, debug.speed):
            I.stubs[f] = _noop

    # known-finding regions: {finding_id: description}
    findings = {}

    def api_replay(self, cfg, values):
        """optional: reproduce a counterexample through the public API.
        return None (no recipe) or (reproduced: bool, detail: str)"""
        return None
