"""Aggregates job results into the verdict, the evidence file and the exit code."""
import json
import os
import sys

HERE = os.path.dirname(os.path.dirname(os.path.abspath(__file__)))


def finish(prop, tier, seed, obs, results, active_known, known, wall, write=True, verbose=False,
           write_replay=None):
    by_ob = {}
    for r in results:
        by_ob.setdefault(r['ob'], []).append(r)
    tot = dict(paths=0, checks=0, discharged=0, queries=0, validated=0, unvalidated=0,
               bound_hits=0, unknown=0, engine_queries=0, trivially_true=0)
    errors, inconclusive, violations = [], [], []
    encoded = {}
    samples = []
    solver_time = dict(z3_s=0.0, cvc5_s=0.0, z3_queries=0, cvc5_queries=0, branch_queries_s=0.0,
                       cross_checked=0, disagreements=0)
    ob_rows = []
    for o in obs:
        rs = by_ob.get(o.id, [])
        row = dict(id=o.id, title=o.title, pattern=o.pattern, configs=len(rs),
                   bounds=[r['cfg'] for r in rs], paths=0, checks=0, discharged=0,
                   validated=0, wall_s=0.0, assumptions=list(o.assumptions),
                   reach_witness=None)
        for r in rs:
            st = r['stats']
            for k in tot:
                tot[k] += st.get(k, 0)
            for k in ('paths', 'checks', 'discharged', 'validated'):
                row[k] += st.get(k, 0)
            row['wall_s'] = round(row['wall_s'] + st.get('wall_s', 0), 2)
            if row['reach_witness'] is None and r.get('reach'):
                row['reach_witness'] = r['reach']
            errors += r['errors']
            inconclusive += r['inconclusive']
            for v in r['violations']:
                violations.append((o.id, r['cfg'], v))
            encoded.update(r['encoded'])
            if r['samples'] and len(samples) < 8:
                samples.append(dict(obligation=o.id, bounds=r['cfg'], **r['samples'][0]))
            ss = r.get('solver_stats', {})
            solver_time['z3_s'] += ss.get('z3_time', 0)
            solver_time['cvc5_s'] += ss.get('cvc5_time', 0)
            solver_time['z3_queries'] += ss.get('z3_queries', 0)
            solver_time['cvc5_queries'] += ss.get('cvc5_queries', 0)
            solver_time['cross_checked'] += ss.get('cross_checked', 0)
            solver_time['disagreements'] += ss.get('disagreements', 0)
            solver_time['branch_queries_s'] += st.get('engine_query_time', 0)
        ob_rows.append(row)
    for k in solver_time:
        solver_time[k] = round(solver_time[k], 2) if isinstance(solver_time[k], float) else solver_time[k]

    rc = 0
    vio_lines = []
    per_ob = {}
    for ob_id, cfg, v in violations:
        per_ob[ob_id] = per_ob.get(ob_id, 0) + 1
        if per_ob[ob_id] > 2:
            continue
        path = write_replay(prop, ob_id, cfg, v) if write_replay else '-'
        vio_lines.append('VIOLATION property=%s replay=%s' % (prop, path))
        print('counterexample: obligation=%s check=%r bounds=%s inputs=%s%s'
              % (ob_id, v['label'], json.dumps(cfg), json.dumps(v['values'], default=str)[:400],
                 (' api=%s' % (v['api'],)) if v.get('api') else ''))
    if vio_lines:
        rc = 1
        print('counterexamples found: %d (at most 2 per obligation are written out)' % len(violations))
    if solver_time['disagreements']:
        errors.append('solver portfolio disagreement (z3 vs cvc5)')
    if errors or inconclusive:
        for e in errors[:20]:
            print('HARNESS-ERROR %s' % e)
        for e in inconclusive[:20]:
            print('INCONCLUSIVE %s' % e)
        if rc == 0:
            rc = 3
    for ln in vio_lines:
        print(ln)

    n_ob = len(ob_rows)
    print('%s tier=%s: obligations=%d jobs=%d paths=%d checks=%d discharged=%d validated_paths=%d '
          'solver_queries=%d(+%d branch) wall=%.1fs -> %s'
          % (prop, tier, n_ob, len(results), tot['paths'], tot['checks'], tot['discharged'],
             tot['validated'], tot['queries'], tot['engine_queries'], wall,
             {0: 'HOLDS within bounds', 1: 'VIOLATION', 3: 'INCONCLUSIVE/HARNESS-ERROR'}[rc]))
    if verbose:
        for row in ob_rows:
            print('  %-8s cfgs=%-3d paths=%-6d checks=%-6d discharged=%-6d validated=%-6d %.1fs  %s'
                  % (row['id'], row['configs'], row['paths'], row['checks'], row['discharged'],
                     row['validated'], row['wall_s'], row['title']))
    if write:
        ev = dict(
            property_id=prop, tier=tier, seed=seed, level='model_checking',
            coverage=dict(
                states=max(tot['paths'], 0), transitions=max(tot['queries'] + tot['engine_queries'], 0),
                traces_validated_against_impl=tot['validated'],
                samples=samples or [dict(note='no path reached a check')],
                evaluations=tot['paths'], distinct_nontrivial=tot['queries'],
                rule='states = symbolic paths of the real functions explored exhaustively within the '
                     'stated bounds (DFS over every feasible branch decision); transitions = solver '
                     'queries (branch feasibility + one "pc AND NOT post" query per reached check); '
                     'distinct_nontrivial = checks whose post-condition was not syntactically true and '
                     'needed a solver verdict; every path is re-run natively on a model of its path '
                     'condition (traces_validated_against_impl)',
                obligations=tot['checks'], discharged=tot['discharged'],
                obligation_table=ob_rows,
                functions_encoded=[dict(name=k, sha256_16=v) for k, v in sorted(encoded.items())
                                   if not k.startswith('obligations.')],
                solver=solver_time, bound_hits=tot['bound_hits'], solver_unknown=tot['unknown'],
                unvalidated_paths=tot['unvalidated'],
                inconclusive=inconclusive[:20], harness_errors=[e[:300] for e in errors[:20]],
                known_findings_active=active_known,
                exhaustive=(rc == 0),
                explanation='bounded symbolic execution of the real jedi functions (AST read from '
                            '/repo at run time) with z3/cvc5 deciding every assertion over all '
                            'inputs within the bounds listed per obligation',
            ),
            assumptions=sorted(set(a for o in obs for a in o.assumptions)) + [
                'CPython builtins behave as the pysym library models (differentially tested in setup)',
                'z3 / cvc5 verdicts are trusted; unknown or time-out is reported as inconclusive'],
            wall_s=round(wall, 2), violations=len(vio_lines))
        os.makedirs(os.path.join(HERE, 'evidence'), exist_ok=True)
        with open(os.path.join(HERE, 'evidence', '%s.json' % prop), 'w') as f:
            json.dump(ev, f, indent=1, default=str)
    return rc
