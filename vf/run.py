"""Runner: ./check <property> [--tier quick|thorough] [--only OB] [--jobs N]

exit 0  every obligation of the property discharged (unsat on every path, no bound hit, paths
        validated against the native implementation); KNOWN-FINDING lines for listed findings
exit 1  a counterexample was found AND reproduced natively against the real code
        (line: VIOLATION property=<id> replay=<path>)
exit 3  harness error / inconclusive (solver unknown, bound hit, translator mismatch, vacuity)
"""
import argparse
import hashlib
import importlib
import json
import multiprocessing
import os
import sys
import threading
import time
import traceback

HERE = os.path.dirname(os.path.dirname(os.path.abspath(__file__)))
REPO = os.environ.get('VERIF_REPO', '/repo')
for p in (HERE, REPO):
    if p not in sys.path:
        sys.path.insert(0, p)
os.environ.setdefault('DAVIDHALTER_JEDI_VERIF', '1')

import pysym  # noqa: E402  (adds .deps to sys.path)
import z3  # noqa: E402
from pysym import core, solve  # noqa: E402
from pysym.core import HarnessError, zbool  # noqa: E402
from vf import ob as obmod  # noqa: E402
from vf.ob import Ctx, ModelEval, concretize, canon  # noqa: E402

PROPS = ['C%02d' % i for i in range(1, 21)]


def load_obligations(prop):
    mod = importlib.import_module('obligations.%s' % prop.lower())
    return [cls() for cls in mod.OBLIGATIONS]


def load_known():
    p = os.path.join(HERE, 'known_findings.json')
    if not os.path.exists(p):
        return []
    return json.load(open(p))['findings']


class JobRunner:
    def __init__(self, ob, cfg, tier, seed, active_known):
        self.ob, self.cfg, self.tier, self.seed = ob, cfg, tier, seed
        self.active_known = set(active_known)
        self.stats = dict(paths=0, checks=0, discharged=0, trivially_true=0, queries=0,
                          validated=0, unvalidated=0, bound_hits=0, unknown=0,
                          pruned_known=0)
        self.violations = []        # dicts
        self.errors = []
        self.inconclusive = []
        self.samples = []
        self.path_checks = []       # per current path: (label, cond)

    # called from Ctx.check in symbolic mode
    def on_check(self, ctx, cond, label, known):
        self.stats['checks'] += 1
        if cond is True:
            self.stats['trivially_true'] += 1
            self.stats['discharged'] += 1
            self.path_checks.append((label, True))
            return
        zc = z3.BoolVal(False) if cond is False else zbool(cond)
        neg = [z3.Not(zc)]
        for fid, region in known.items():
            if fid in self.active_known:
                neg.append(z3.Not(zbool(region)) if not isinstance(region, bool)
                           else z3.BoolVal(not region))
        self.stats['queries'] += 1
        self.path_checks.append((label, cond))
        st, m, q = ctx.eng.refute(neg, int(self.ob.z3_timeout * 1000))
        cross = self.tier == 'thorough' and self.cfg.get('cross_check', False)
        if st == 'unknown' or cross or (st == 'sat' and m is None):
            r = solve.check(list(ctx.eng.pc) + neg, self.ob.z3_timeout, self.ob.cvc5_timeout,
                            cross_check=cross, seed=self.seed)
            me = ModelEval(r.zmodel, r.model) if r.status == 'sat' else None
        else:
            r = solve.Result(st, solver='z3-sliced')
            me = ModelEval(zvalues=m) if st == 'sat' else None
        if r.status == 'unsat':
            self.stats['discharged'] += 1
            if len(neg) > 1:
                # was it only unsat thanks to a known-finding exclusion? (informational)
                pass
            return
        if r.status == 'sat':
            self.violations.append(dict(label=label, me=me, solver=r.solver))
            return
        self.stats['unknown'] += 1
        self.inconclusive.append('%s: solver %s (%s) on check %r' % (self.ob.id, r.status, r.msg or r.solver, label))

    def native_run(self, me):
        ctx = Ctx('native', me=me)
        err = None
        try:
            self.ob.scenario(ctx, self.cfg)
        except HarnessError:
            raise
        except Exception as e:
            err = e
        finally:
            ctx.cleanup()
        return ctx, err

    def run(self):
        ob, cfg = self.ob, self.cfg
        I = ob.make_interp()
        ob.setup_interp(I, cfg)
        eng = core.Engine(max_paths=cfg.get('max_paths', ob.max_paths), seed=self.seed)
        t0 = time.time()

        def harness():
            I.holders.clear()
            I.depth = 0
            I.handling = []
            ctx = Ctx('sym', interp=I, eng=eng, runner=self)
            self.cur_ctx = ctx
            self.path_checks = []
            self.violations_before = len(self.violations)
            try:
                I.call(ob.scenario, [ctx, cfg], {})
            finally:
                ctx.cleanup()
            return ctx

        reach = None
        for path in eng.explore(harness):
            self.stats['paths'] += 1
            if path.kind == 'bound':
                self.stats['bound_hits'] += 1
                self.inconclusive.append('%s: bound hit: %s' % (ob.id, path.value))
                continue
            if path.kind == 'exc':
                e = path.value
                tb = ''.join(traceback.format_exception(type(e), e, e.__traceback__)[-6:])
                self.errors.append('%s: exception escaped the scenario: %r\n%s' % (ob.id, e, tb))
                continue
            ctx = path.value
            # ---- per-path validation against the native implementation
            if path.zmodel is not None:
                r = solve.Result('sat', zmodel=path.zmodel, solver='z3')
            elif path.model is not None:
                r = solve.Result('sat', solver='z3-sliced')
                r.zvalues = path.model
            else:
                r = solve.z3_check(path.pc, 2.0, self.seed)
                if r.status != 'sat' and solve._uses_strings(path.pc):
                    r = solve._WORKER.check(path.pc, 10.0)
            if r.status == 'unsat':
                continue        # dead path that the branch-time budget could not prune
            if r.status != 'sat':
                self.stats['unvalidated'] += 1
                continue
            me = ModelEval(zvalues=r.zvalues) if getattr(r, 'zvalues', None) is not None \
                else ModelEval(r.zmodel, r.model)
            try:
                sym_obs = canon(concretize(self._obs(ctx), me))
                nctx, err = self.native_run(me)
                nat_obs = canon(self._obs(nctx))
            except HarnessError as e:
                self.errors.append('%s: validation: %s' % (ob.id, e))
                continue
            except Exception as e:
                self.stats['unvalidated'] += 1
                self.errors.append('%s: validation crashed: %r' % (ob.id, e))
                continue
            if err is not None:
                self.errors.append('%s: native run raised %r where the symbolic run finished; inputs=%s'
                                   % (ob.id, err, _inputs_repr(nctx)))
                continue
            if sym_obs != nat_obs:
                self.errors.append('%s: TRANSLATOR MISMATCH inputs=%s\n  symbolic: %s\n  native:   %s'
                                   % (ob.id, _inputs_repr(nctx), json.dumps(sym_obs)[:600],
                                      json.dumps(nat_obs)[:600]))
                continue
            self.stats['validated'] += 1
            if ctx.checks and reach is None:
                reach = _inputs_repr(nctx)
            if len(self.samples) < 3 and ctx.checks:
                self.samples.append(dict(inputs=_inputs_json(nctx), observations=nat_obs[:6]))
        # ---- violations: reproduce natively
        confirmed = []
        seen = set()
        for v in self.violations:
            try:
                nctx, err = self.native_run(v['me'])
            except HarnessError as e:
                self.errors.append('%s: counterexample could not be replayed: %s' % (ob.id, e))
                continue
            values = _inputs_json(nctx)
            key = json.dumps([v['label'], values], sort_keys=True, default=str)
            if key in seen:
                continue
            seen.add(key)
            if v['label'] in nctx.failed:
                api = None
                try:
                    api = ob.api_replay(cfg, dict((k, val) for k, val in nctx.inputs))
                except Exception as e:
                    api = (None, 'api replay crashed: %r' % (e,))
                confirmed.append(dict(label=v['label'], values=values, solver=v['solver'],
                                      model=_model_json(nctx), api=api,
                                      observations=canon(self._obs(nctx))[:8]))
            else:
                self.errors.append('%s: counterexample for %r did NOT reproduce natively (encoding or '
                                   'stub wrong); inputs=%s err=%r' % (ob.id, v['label'], values, err))
        if reach is None and not self.errors and not confirmed:
            self.errors.append('%s: vacuous: no validated path reached a check' % ob.id)
        st = self.stats
        st['engine_queries'] = eng.queries
        st['engine_query_time'] = round(eng.query_time, 3)
        st['unknown_branches'] = eng.unknown_branches
        if eng.disagreements:
            self.errors.append('%s: solver disagreement: cvc5 said unsat where z3 found a model (%d times)' % (ob.id, eng.disagreements))
        st['ast_nodes'] = I.nodes_executed
        st['wall_s'] = round(time.time() - t0, 3)
        return dict(ob=ob.id, cfg=cfg, stats=st, violations=confirmed, errors=self.errors,
                    inconclusive=self.inconclusive, samples=self.samples, reach=reach,
                    encoded=dict(I.encoded))

    @staticmethod
    def _obs(ctx):
        out = []
        for o in ctx.obs:
            if o[0] == 'check':
                out.append(['check', o[1], o[2]])
            elif o[0] == 'call':
                out.append(['call', o[1]])
            else:
                out.append(['obs', o[1], o[2]])
        # symbolic mode records checks in the runner
        return out


def _inputs_repr(ctx):
    return json.dumps(_inputs_json(ctx), default=str)[:500]


def _inputs_json(ctx):
    out = {}
    cnt = {}
    for name, v in ctx.inputs:
        n = cnt.get(name, 0)
        cnt[name] = n + 1
        out[name if n == 0 else '%s#%d' % (name, n)] = v
    return out


def _model_json(ctx):
    return _inputs_json(ctx)


def _job(args):
    prop, ob_id, cfg, tier, seed, active = args
    out = {}

    def work():
        try:
            ob = [o for o in load_obligations(prop) if o.id == ob_id][0]
            out['r'] = JobRunner(ob, cfg, tier, seed, active).run()
        except BaseException as e:
            out['r'] = dict(ob=ob_id, cfg=cfg, stats={}, violations=[], inconclusive=[], samples=[],
                            reach=None, encoded={},
                            errors=['%s: runner crashed: %r\n%s' % (ob_id, e, traceback.format_exc()[-1500:])])
    threading.stack_size(512 * 1024 * 1024)
    t = threading.Thread(target=work)
    t.start()
    t.join()
    solve.shutdown()
    out['r']['solver_stats'] = dict(solve.STATS)
    return out['r']


def replay_known(prop, known):
    """native replay of the witnesses of open known findings; returns (active ids, lines)"""
    active, lines = [], []
    obs = {o.id: o for o in load_obligations(prop)}
    for k in known:
        if k.get('property') != prop or k.get('status') != 'open':
            continue
        ob = obs.get(k['obligation'])
        if ob is None:
            lines.append('NOTE: known finding %s names unknown obligation %s' % (k['id'], k['obligation']))
            continue
        me = ModelEval(values=k['witness']['values'])
        ctx = Ctx('native', me=me)
        try:
            try:
                ob.scenario(ctx, k['witness']['cfg'])
            finally:
                ctx.cleanup()
        except Exception as e:
            lines.append('NOTE: witness of %s no longer runs (%r); exclusion not applied' % (k['id'], e))
            continue
        if k['witness']['label'] in ctx.failed:
            active.append(k['id'])
            lines.append('KNOWN-FINDING: property=%s %s' % (prop, k['summary']))
        else:
            lines.append('NOTE: known finding %s no longer reproduces; its exclusion is not applied' % k['id'])
    return active, lines


def write_replay(prop, ob_id, cfg, viol):
    d = os.path.join(HERE, 'replays', prop)
    os.makedirs(d, exist_ok=True)
    h = hashlib.sha256(json.dumps([ob_id, cfg, viol['values'], viol['label']], sort_keys=True,
                                  default=str).encode()).hexdigest()[:10]
    path = os.path.join(d, '%s-%s.py' % (ob_id.replace('.', '_'), h))
    body = '''#!/venv/bin/python
"""Replay of a counterexample for %(prop)s / %(ob)s (check %(label)r).
Runs the obligation's scenario NATIVELY (real jedi code from /repo, no interpreter, no solver) on the
concrete inputs below.  Exit 1 while the deviation exists, exit 0 once it is gone."""
import json, os, sys
sys.path.insert(0, %(here)r); sys.path.insert(0, os.environ.get('VERIF_REPO', '/repo'))
from vf.replay import replay
sys.exit(replay(%(prop)r, %(ob)r, json.loads(%(cfg)r), json.loads(%(values)r), %(label)r))
''' % dict(prop=prop, ob=ob_id, label=viol['label'], here=HERE,
           cfg=json.dumps(cfg), values=json.dumps(viol['values'], default=str))
    with open(path, 'w') as f:
        f.write(body)
    os.chmod(path, 0o755)
    return path


def main(argv=None):
    ap = argparse.ArgumentParser()
    ap.add_argument('prop')
    ap.add_argument('--tier', default=os.environ.get('VERIF_TIER', 'quick'), choices=['quick', 'thorough'])
    ap.add_argument('--only', default=None, help='run only this obligation id')
    ap.add_argument('--jobs', type=int, default=int(os.environ.get('VERIF_JOBS', '16')))
    ap.add_argument('--no-evidence', action='store_true')
    ap.add_argument('-v', action='store_true')
    a = ap.parse_args(argv)
    prop = a.prop.upper()
    seed = int(os.environ.get('VERIF_SEED', '0') or 0)
    t0 = time.time()
    obs = load_obligations(prop)
    if a.only:
        obs = [o for o in obs if o.id == a.only]
    known = load_known()
    active, lines = replay_known(prop, known)
    for ln in lines:
        print(ln)
    jobs = []
    for o in obs:
        for cfg in o.configs(a.tier):
            jobs.append((prop, o.id, cfg, a.tier, seed, active))
    if a.jobs > 1 and len(jobs) > 1:
        ctxm = multiprocessing.get_context('fork')
        with ctxm.Pool(min(a.jobs, len(jobs))) as pool:
            results = pool.map(_job, jobs, chunksize=1)
    else:
        results = [_job(j) for j in jobs]
    from vf import evidence
    rc = evidence.finish(prop, a.tier, seed, obs, results, active, known, time.time() - t0,
                         write=not a.no_evidence, verbose=a.v, write_replay=write_replay)
    sys.stdout.flush()
    return rc


if __name__ == '__main__':
    sys.exit(main())
