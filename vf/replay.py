"""Native replay of a counterexample: the scenario runs as ordinary Python on concrete inputs."""
import importlib
import json
import sys


def replay(prop, ob_id, cfg, values, label):
    import pysym  # noqa: F401
    from vf.ob import Ctx, ModelEval
    mod = importlib.import_module('obligations.%s' % prop.lower())
    ob = [cls() for cls in mod.OBLIGATIONS if cls.id == ob_id][0]
    ctx = Ctx('native', me=ModelEval(values=values))
    try:
        ob.scenario(ctx, cfg)
    finally:
        ctx.cleanup()
    print('obligation %s: %s' % (ob_id, ob.title))
    print('inputs: %s' % json.dumps(values, default=str))
    for o in ctx.obs:
        print('  ', o)
    if label in ctx.failed:
        print('DEVIATION REPRODUCED: check %r fails on the real code' % label)
        return 1
    print('check %r holds on these inputs' % label)
    return 0
